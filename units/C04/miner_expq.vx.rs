// unit: miner ExpirationSet / ExpirationQueue — the partition's expiration queue (quantised epoch -> expiration set) under contract (C04)
//@ include prelude/core.rs
//@ include prelude/ipld.rs
//@ include prelude/bitfield.rs
//@ include prelude/miner_expq_types.rs
//@ include prelude/btreemap.rs
//@ include prelude/btreeset.rs
//@ include prelude/miner_expq_btreeset.rs
//@ include prelude/miner_expq_amt.rs
//@ include prelude/miner_expq_btreemap.rs
use std::ops;
verus! {
pub type DealWeight = BigInt;
/// bitflags! SectorOnChainInfoFlags (opaque bit set; not used by the functions under contract)
#[derive(Clone, Copy, PartialEq, Eq, Structural)]
pub struct SectorOnChainInfoFlags { pub bits: u32 }
//@ item actors/miner/src/types.rs SectorOnChainInfo
//@ include prelude/miner_sector_clone.rs
//@ include prelude/miner_expq_sector.rs
//@ item actors/miner/src/partition_state.rs PowerPair
//@ include units/shared/power_pair.inc
//@ item actors/miner/src/quantize.rs QuantSpec attr="#[derive(Clone, Copy)]"
//@ include units/shared/expq_quant.inc
//@ include units/shared/expq_amtloop.inc
//@ item actors/miner/src/expiration_queue.rs ExpirationSet
//@ item actors/miner/src/expiration_queue.rs ExpirationQueue tsub0="Array < 'db , ExpirationSet , BS >=>Array<ExpirationSet, &'db BS>"
//@ include units/shared/expq_expset.inc

// ======================= the queue: AMT quantised epoch -> ExpirationSet =======================
pub type EMap = Map<u64, ExpirationSet>;
/// the content scheduled at key `e` (the zero set when there is no entry)
pub open spec fn eq_at(m: EMap, e: u64) -> EsV { if m.dom().contains(e) { esv(m[e]) } else { esv_zero() } }
/// keys are epochs (they came from an i64 through try_into)
pub open spec fn eq_keys_ok(m: EMap) -> bool { forall|k: u64| m.dom().contains(k) ==> k <= 0x7fff_ffff_ffff_ffff }
/// `m1` is `m0` with the entry at `e` (re)written to content `v`; every other entry is untouched
pub open spec fn eq_upd(m0: EMap, m1: EMap, e: u64, v: EsV) -> bool {
    &&& m1.dom() =~= m0.dom().insert(e)
    &&& esv_eq(esv(m1[e]), v)
    &&& forall|k: u64| k != e && m0.dom().contains(k) ==> #[trigger] m1[k] == m0[k]
}
/// the queue never keeps an entry without sectors: writing an entry whose sector sets are empty deletes it
pub open spec fn eq_upd_or_del(m0: EMap, m1: EMap, e: u64, v: EsV) -> bool {
    if v.on_time =~= Set::<u64>::empty() && v.early =~= Set::<u64>::empty() { m1 =~= m0.remove(e) } else { eq_upd(m0, m1, e, v) }
}

//@ fn actors/miner/src/expiration_queue.rs ExpirationQueue::new
    ensures r.is_ok() ==> r->Ok_0.amt.view() == array_decode::<ExpirationSet>(*root) && r->Ok_0.quant == quant,
//@ end
//@ fn actors/miner/src/expiration_queue.rs ExpirationQueue::may_get
    ensures r.is_ok() ==> key >= 0 && esv(r->Ok_0) == eq_at(self.amt.view(), key as u64),
//@ end
//@ fn actors/miner/src/expiration_queue.rs ExpirationQueue::must_update
    ensures
        final(self).quant == old(self).quant,
        r.is_ok() ==> epoch >= 0 && final(self).amt.view() == old(self).amt.view().insert(epoch as u64, expiration_set),
        r.is_err() ==> final(self).amt.view() == old(self).amt.view(),
//@ end
//@ fn actors/miner/src/expiration_queue.rs ExpirationQueue::must_update_or_delete
    ensures
        final(self).quant == old(self).quant,
        r.is_ok() ==> epoch >= 0 && eq_upd_or_del(old(self).amt.view(), final(self).amt.view(), epoch as u64, esv(expiration_set)),
        r.is_err() ==> final(self).amt.view() == old(self).amt.view(),
//@ end
//@ fn actors/miner/src/expiration_queue.rs ExpirationQueue::add
    requires q_ok(old(self).quant), ep_ok(raw_epoch as int),
    ensures
        final(self).quant == old(self).quant,
        r.is_err() ==> final(self).amt.view() == old(self).amt.view(),
        // the values land in the entry at quantize_up(raw_epoch) — created if absent — and nowhere else; amounts stay non-negative
        r.is_ok() ==> ({
            let e = quantize_up_spec(old(self).quant, raw_epoch as int);
            let v = esv_add(eq_at(old(self).amt.view(), e as u64), esv_of(on_time_sectors@, early_sectors@, pledge@, *active_power, *faulty_power, daily_fee@));
            e >= 0 && esv_nonneg(v) && eq_upd(old(self).amt.view(), final(self).amt.view(), e as u64, v)
        }),
        r.is_ok() && eq_keys_ok(old(self).amt.view()) ==> eq_keys_ok(final(self).amt.view()),
//@ end
//@ fn actors/miner/src/expiration_queue.rs ExpirationQueue::remove
    requires q_ok(old(self).quant), ep_ok(raw_epoch as int),
    ensures
        final(self).quant == old(self).quant,
        r.is_err() ==> final(self).amt.view() == old(self).amt.view(),
        // the entry at quantize_up(raw_epoch) must exist and hold the sectors; it loses exactly the given values and is deleted when no sector is left
        r.is_ok() ==> ({
            let e = quantize_up_spec(old(self).quant, raw_epoch as int);
            let m0 = old(self).amt.view();
            let v = esv_sub(eq_at(m0, e as u64), esv_of(on_time_sectors@, early_sectors@, pledge@, *active_power, *faulty_power, fee_deduction@));
            &&& e >= 0 && m0.dom().contains(e as u64)
            &&& on_time_sectors@.subset_of(eq_at(m0, e as u64).on_time) && early_sectors@.subset_of(eq_at(m0, e as u64).early)
            &&& esv_nonneg(v) && eq_upd_or_del(m0, final(self).amt.view(), e as u64, v)
        }),
        r.is_ok() && eq_keys_ok(old(self).amt.view()) ==> eq_keys_ok(final(self).amt.view()),
//@ end

// ======================= totals over the queue (for the conservation clauses) =======================
pub type VMap = Map<u64, EsV>;
pub open spec fn qmap(m: EMap) -> VMap { m.map_values(|s: ExpirationSet| esv(s)) }
/// component-wise sum (sets: union) of all entries of the queue
pub open spec fn qsum(m: VMap) -> EsV
    decreases m.dom().len()
{
    if m.dom().len() == 0 { esv_zero() } else { let k = m.dom().choose(); esv_add(m[k], qsum(m.remove(k))) }
}
pub open spec fn eq_total(m: EMap) -> EsV { qsum(qmap(m)) }
pub proof fn lemma_esv_add_comm(a: EsV, b: EsV, x: EsV)
    ensures esv_add(a, esv_add(b, x)) == esv_add(b, esv_add(a, x)),
{
    assert(a.on_time.union(b.on_time.union(x.on_time)) =~= b.on_time.union(a.on_time.union(x.on_time)));
    assert(a.early.union(b.early.union(x.early)) =~= b.early.union(a.early.union(x.early)));
}
/// the total does not depend on the order: any entry can be taken out first
pub proof fn lemma_qsum_remove(m: VMap, k: u64)
    requires m.dom().contains(k),
    ensures qsum(m) == esv_add(m[k], qsum(m.remove(k))),
    decreases m.dom().len()
{
    let c = m.dom().choose();
    assert(m.dom().len() != 0);
    if c != k {
        lemma_qsum_remove(m.remove(c), k);
        lemma_qsum_remove(m.remove(k), c);
        assert(m.remove(c).remove(k) =~= m.remove(k).remove(c));
        let x = qsum(m.remove(c).remove(k));
        assert(qsum(m) == esv_add(m[c], qsum(m.remove(c))));
        assert(qsum(m.remove(c)) == esv_add(m[k], x));
        assert(qsum(m.remove(k)) == esv_add(m[c], x));
        lemma_esv_add_comm(m[c], m[k], x);
    }
}

// ======================= pop_until =======================
pub type EEnt<'b> = (u64, &'b ExpirationSet);
/// component-wise sum of the first n visited entries
pub open spec fn es_sum(es: Seq<EEnt>, n: int) -> EsV
    decreases n
{ if n <= 0 { esv_zero() } else { esv_add(es_sum(es, n - 1), esv(*es[n - 1].1)) } }
/// the loop of pop_until after keys.len() entries: exactly they were collected and summed, all of them due
pub open spec fn eq_pop_inv(es: Seq<EEnt>, until: ChainEpoch, keys: Seq<u64>, acc: EsV) -> bool {
    &&& keys.len() <= es.len()
    &&& keys =~= ent_keys(es, keys.len() as int)
    &&& esv_eq(acc, es_sum(es, keys.len() as int))
    &&& forall|j: int| 0 <= j < keys.len() ==> ((#[trigger] es[j]).0 as ChainEpoch) <= until
}
/// the entries of `m` that are due at `until`
pub open spec fn eq_due(m: EMap, until: ChainEpoch) -> Set<u64> { m.dom().filter(|k: u64| (k as ChainEpoch) <= until) }
/// what pop_until promises: the result is the component-wise sum of exactly the entries with key <= until, and exactly those are deleted;
/// conservation: what was in the queue is what was popped plus what is left
pub open spec fn eq_pop_post(m0: EMap, m1: EMap, until: ChainEpoch, v: EsV) -> bool {
    &&& m1 =~= m0.remove_keys(eq_due(m0, until))
    &&& esv_eq(v, eq_total(m0.restrict(eq_due(m0, until))))
    &&& esv_eq(eq_total(m0), esv_add(v, eq_total(m1)))
}
/// the sum of the first n entries of the traversal is the total of the map restricted to their keys; the rest is the map without them
pub proof fn lemma_es_sum_total(m: EMap, es: Seq<EEnt>, n: int)
    requires amt_entries(m, es), 0 <= n <= es.len(),
    ensures
        esv_eq(es_sum(es, n), eq_total(m.restrict(ent_keys(es, n).to_set()))),
        esv_eq(eq_total(m), esv_add(es_sum(es, n), eq_total(m.remove_keys(ent_keys(es, n).to_set())))),
    decreases n
{
    let ks = ent_keys(es, n).to_set();
    if n == 0 {
        assert(ks =~= Set::<u64>::empty());
        assert(qmap(m.restrict(ks)).dom() =~= Set::<u64>::empty());
        assert(m.remove_keys(ks) =~= m);
        let t = eq_total(m);
        assert(esv_eq(esv_add(esv_zero(), t), t));
    } else {
        lemma_es_sum_total(m, es, n - 1);
        let ks1 = ent_keys(es, n - 1).to_set();
        let k = es[n - 1].0;
        let sq = ent_keys(es, n);
        let sq1 = ent_keys(es, n - 1);
        assert(ent_keys(es, n) =~= ent_keys(es, n - 1).push(k));
        assert(!ks1.contains(k)) by {
            if ks1.contains(k) { let j = choose|j: int| 0 <= j < sq1.len() && sq1[j] == k; assert(es[j].0 < es[n - 1].0); }
        }
        assert(ks =~= ks1.insert(k)) by {
            assert forall|x: u64| ks.contains(x) <==> ks1.insert(k).contains(x) by {
                if ks.contains(x) { let j = choose|j: int| 0 <= j < sq.len() && sq[j] == x; if j < n - 1 { assert(sq1[j] == x); } }
                if ks1.contains(x) { let j = choose|j: int| 0 <= j < sq1.len() && sq1[j] == x; assert(sq[j] == x); }
                if x == k { assert(sq[n - 1] == x); }
            }
        }
        assert(m.dom().contains(k) && *es[n - 1].1 == m[k]);
        // restricted part grows by entry k
        let r = qmap(m.restrict(ks));
        assert(r.dom().contains(k));
        lemma_qsum_remove(r, k);
        assert(r.remove(k) =~= qmap(m.restrict(ks1)));
        assert(r[k] == esv(m[k]));
        let a = es_sum(es, n - 1);
        let b = esv(m[k]);
        assert(esv_eq(esv_add(b, a), esv_add(a, b)));
        // the rest loses entry k
        let rest1 = qmap(m.remove_keys(ks1));
        assert(rest1.dom().contains(k));
        lemma_qsum_remove(rest1, k);
        assert(rest1.remove(k) =~= qmap(m.remove_keys(ks)));
        assert(rest1[k] == b);
        let x = eq_total(m.remove_keys(ks));
        assert(esv_eq(esv_add(a, esv_add(b, x)), esv_add(esv_add(a, b), x)));
    }
}
pub proof fn lemma_eq_pop_done(m0: EMap, es: Seq<EEnt>, until: ChainEpoch, keys: Seq<u64>, acc: EsV, m1: EMap)
    requires
        amt_entries(m0, es), eq_keys_ok(m0), eq_pop_inv(es, until, keys, acc),
        keys.len() < es.len() ==> (es[keys.len() as int].0 as ChainEpoch) > until,
        m1 == m0.remove_keys(keys.to_set()),
    ensures eq_pop_post(m0, m1, until, acc),
{
    let n = keys.len() as int;
    assert forall|j: int| n <= j < es.len() implies ((#[trigger] es[j]).0 as ChainEpoch) > until by {
        if j > n { assert(es[n].0 < es[j].0); }
        assert(m0.dom().contains(es[j].0) && m0.dom().contains(es[n].0));
    }
    assert(keys.to_set() =~= eq_due(m0, until)) by {
        assert forall|k: u64| keys.to_set().contains(k) <==> eq_due(m0, until).contains(k) by {
            if keys.to_set().contains(k) { let j = choose|j: int| 0 <= j < keys.len() && keys[j] == k; assert(es[j].0 == k && m0.dom().contains(es[j].0)); }
            if eq_due(m0, until).contains(k) { let j = choose|j: int| 0 <= j < es.len() && #[trigger] es[j].0 == k; assert(j < n); assert(keys[j] == k); }
        }
    }
    lemma_es_sum_total(m0, es, n);
}

//@ fn actors/miner/src/expiration_queue.rs ExpirationQueue::pop_until sub0="self . amt . for_each_while=>let __vx_es = self.amt.vx_entries_sorted()?; let ghost __vx_ges = __vx_es@; let mut __vx_i: usize = 0; let mut i: u64 = 0; let __vx_d = ExpirationSet::empty(); let mut this_value: &ExpirationSet = &__vx_d; vx_done" sub1="| i , this_value |=>while vx_next(&__vx_es, &mut __vx_i, &mut i, &mut this_value) invariant_except_break __vx_i == popped_keys@.len(), invariant __vx_es@ == __vx_ges, amt_entries(old(self).amt.view(), __vx_ges), *self == *old(self), eq_pop_inv(__vx_ges, until, popped_keys@, esv_of(on_time_sectors@, early_sectors@, on_time_pledge@, active_power, faulty_power, fee_deduction@)), ensures eq_pop_inv(__vx_ges, until, popped_keys@, esv_of(on_time_sectors@, early_sectors@, on_time_pledge@, active_power, faulty_power, fee_deduction@)), popped_keys@.len() < __vx_ges.len() ==> (__vx_ges[popped_keys@.len() as int].0 as ChainEpoch) > until, decreases __vx_ges.len() - __vx_i" sub2="return Ok (false) ;=>break;" sub3="Ok (true)=>{}"
    requires eq_keys_ok(old(self).amt.view()),
    ensures
        final(self).quant == old(self).quant,
        // "pop_until(e) returns the component-wise sum of exactly the sets with key <= e and deletes them"
        r.is_ok() ==> eq_pop_post(old(self).amt.view(), final(self).amt.view(), until, esv(r->Ok_0)),
        r.is_ok() ==> eq_keys_ok(final(self).amt.view()),
//@ before "self . amt . batch_delete"
        let ghost __vx_keys = popped_keys@;
//@ after "self . amt . batch_delete"
        proof { lemma_eq_pop_done(old(self).amt.view(), __vx_ges, until, __vx_keys, esv_of(on_time_sectors@, early_sectors@, on_time_pledge@, active_power, faulty_power, fee_deduction@), self.amt.view()); }
//@ end

// ======================= add_active_sectors =======================
//@ item actors/miner/src/expiration_queue.rs SectorEpochSet attr="pub"
//@ fn actors/miner/src/lib.rs power_for_sector suball0="sector_size as u64=>sector_size.v"
    ensures r.raw@ == sector_size.v, r.qa@ == qa_power_spec(sector_size.v, secv(*sector)),
//@ end
pub type SVs = Seq<SecV>;
pub open spec fn svs(ss: Seq<SectorOnChainInfo>) -> SVs { ss.map_values(|s: SectorOnChainInfo| secv(s)) }
pub open spec fn rvs(rs: Seq<&SectorOnChainInfo>) -> SVs { rs.map_values(|r: &SectorOnChainInfo| secv(*r)) }
pub open spec fn nums(s: SVs) -> Seq<u64> { s.map_values(|v: SecV| v.sector_number) }
/// sums over a list of sectors: quality-adjusted power (`power_for_sector(..).qa`; the raw power of n sectors is n * sector size), pledge, daily fee
pub open spec fn sum_qa(size: u64, s: SVs) -> int
    decreases s.len()
{ if s.len() == 0 { 0 } else { sum_qa(size, s.drop_last()) + qa_power_spec(size, s.last()) } }
pub open spec fn sum_pledge(s: SVs) -> int
    decreases s.len()
{ if s.len() == 0 { 0 } else { sum_pledge(s.drop_last()) + s.last().initial_pledge } }
pub open spec fn sum_fee(s: SVs) -> int
    decreases s.len()
{ if s.len() == 0 { 0 } else { sum_fee(s.drop_last()) + s.last().daily_fee } }
/// the sectors among the first n whose expiration quantises to e, in order
pub open spec fn grp(s: SVs, q: QuantSpec, e: int, n: int) -> SVs
    decreases n
{ if n <= 0 { Seq::empty() } else if quantize_up_spec(q, s[n - 1].expiration as int) == e { grp(s, q, e, n - 1).push(s[n - 1]) } else { grp(s, q, e, n - 1) } }
/// group `g` carries exactly the members `mem`: their numbers in order, n * size raw power, and the sums of their qa power, pledge and fee
pub open spec fn grp_ok(g: SectorEpochSet, mem: SVs, size: u64) -> bool {
    g.sectors@ == nums(mem) && g.power.raw@ == size * mem.len() && g.power.qa@ == sum_qa(size, mem) && g.pledge@ == sum_pledge(mem) && g.daily_fee@ == sum_fee(mem)
}
/// some sector among the first n expires (quantised) at e
pub open spec fn exp_hit(s: SVs, q: QuantSpec, n: int, e: int) -> bool { exists|j: int| 0 <= j < n && quantize_up_spec(q, (#[trigger] s[j]).expiration as int) == e }
/// the grouping map after the first n sectors
pub open spec fn btm_grp(m: Map<ChainEpoch, Vec<&SectorOnChainInfo>>, s: SVs, q: QuantSpec, n: int) -> bool {
    &&& forall|e: ChainEpoch| #[trigger] m.dom().contains(e) <==> exp_hit(s, q, n, e as int)
    &&& forall|e: ChainEpoch| m.dom().contains(e) ==> rvs((#[trigger] m[e])@) == grp(s, q, e as int, n)
}
pub proof fn lemma_btm_grp_step(mb: Map<ChainEpoch, Vec<&SectorOnChainInfo>>, ma: Map<ChainEpoch, Vec<&SectorOnChainInfo>>, s: SVs, q: QuantSpec, n: int, x: &SectorOnChainInfo, e: ChainEpoch)
    requires
        btm_grp(mb, s, q, n), 0 <= n < s.len(), secv(*x) == s[n], e == quantize_up_spec(q, s[n].expiration as int),
        ma.dom() == mb.dom().insert(e),
        ma[e]@ == (if mb.dom().contains(e) { mb[e]@ } else { Seq::<&SectorOnChainInfo>::empty() }).push(x),
        forall|k2: ChainEpoch| k2 != e && mb.dom().contains(k2) ==> ma[k2] == mb[k2],
    ensures btm_grp(ma, s, q, n + 1),
{
    assert forall|k: ChainEpoch| #[trigger] ma.dom().contains(k) <==> exp_hit(s, q, n + 1, k as int) by {
        if exp_hit(s, q, n, k as int) { let j = choose|j: int| 0 <= j < n && quantize_up_spec(q, (#[trigger] s[j]).expiration as int) == k; assert(0 <= j < n + 1 && quantize_up_spec(q, s[j].expiration as int) == k); }
        if k == e { assert(0 <= n < n + 1 && quantize_up_spec(q, s[n].expiration as int) == k); }
        if exp_hit(s, q, n + 1, k as int) { let j = choose|j: int| 0 <= j < n + 1 && quantize_up_spec(q, (#[trigger] s[j]).expiration as int) == k; if j < n { assert(exp_hit(s, q, n, k as int)); } }
    }
    assert forall|k: ChainEpoch| ma.dom().contains(k) implies rvs((#[trigger] ma[k])@) == grp(s, q, k as int, n + 1) by {
        if k == e {
            let prev = if mb.dom().contains(e) { mb[e]@ } else { Seq::<&SectorOnChainInfo>::empty() };
            if !mb.dom().contains(e) {
                assert(!exp_hit(s, q, n, e as int));
                lemma_grp_none(s, q, e as int, n);
            }
            assert(rvs(prev) =~= grp(s, q, e as int, n));
            assert(rvs(prev.push(x)) =~= rvs(prev).push(secv(*x)));
        } else { assert(ma[k] == mb[k]); }
    }
}
pub proof fn lemma_grp_none(s: SVs, q: QuantSpec, e: int, n: int)
    requires 0 <= n <= s.len(), !exp_hit(s, q, n, e),
    ensures grp(s, q, e, n) =~= Seq::<SecV>::empty(),
    decreases n
{
    if n > 0 {
        assert(quantize_up_spec(q, s[n - 1].expiration as int) != e) by { if quantize_up_spec(q, s[n - 1].expiration as int) == e { assert(0 <= n - 1 < n); } }
        assert(!exp_hit(s, q, n - 1, e)) by {
            if exp_hit(s, q, n - 1, e) { let j = choose|j: int| 0 <= j < n - 1 && quantize_up_spec(q, (#[trigger] s[j]).expiration as int) == e; assert(0 <= j < n && quantize_up_spec(q, s[j].expiration as int) == e); }
        }
        lemma_grp_none(s, q, e, n - 1);
    }
}
pub proof fn lemma_grp_some(s: SVs, q: QuantSpec, e: int, n: int)
    requires 0 <= n <= s.len(), exp_hit(s, q, n, e),
    ensures grp(s, q, e, n).len() > 0,
    decreases n
{
    if n > 0 && quantize_up_spec(q, s[n - 1].expiration as int) != e {
        let j = choose|j: int| 0 <= j < n && quantize_up_spec(q, (#[trigger] s[j]).expiration as int) == e;
        assert(0 <= j < n - 1 && quantize_up_spec(q, s[j].expiration as int) == e);
        lemma_grp_some(s, q, e, n - 1);
    }
}
/// the first k of the references of a group, as sector views
pub open spec fn mem_pref(es: Seq<&SectorOnChainInfo>, k: int) -> SVs { Seq::new(k as nat, |j: int| secv(*es[j])) }
pub proof fn lemma_mem_pref_step(es: Seq<&SectorOnChainInfo>, k: int, size: u64)
    requires 0 <= k < es.len(),
    ensures
        sum_qa(size, mem_pref(es, k + 1)) == sum_qa(size, mem_pref(es, k)) + qa_power_spec(size, secv(*es[k])),
        sum_pledge(mem_pref(es, k + 1)) == sum_pledge(mem_pref(es, k)) + es[k].initial_pledge@,
        sum_fee(mem_pref(es, k + 1)) == sum_fee(mem_pref(es, k)) + es[k].daily_fee@,
        nums(mem_pref(es, k + 1)) =~= nums(mem_pref(es, k)).push(es[k].sector_number),
{
    assert(mem_pref(es, k + 1).drop_last() =~= mem_pref(es, k));
    assert(mem_pref(es, k + 1).last() == secv(*es[k]));
}
/// what group_new_sectors_by_declared_expiration returns for the sectors `s`
pub open spec fn groups_ok(gs: Seq<SectorEpochSet>, s: SVs, q: QuantSpec, size: u64, k: int) -> bool {
    &&& forall|i: int| 0 <= i < k ==> grp_ok(#[trigger] gs[i], grp(s, q, gs[i].epoch as int, s.len() as int), size) && exp_hit(s, q, s.len() as int, gs[i].epoch as int)
}
/// some group of `gs` is for epoch `e`
pub open spec fn has_group(gs: Seq<SectorEpochSet>, e: int) -> bool { exists|i: int| 0 <= i < gs.len() && (#[trigger] gs[i]).epoch == e }
pub proof fn lemma_groups_cover(m: Map<ChainEpoch, Vec<&SectorOnChainInfo>>, ge: Seq<(ChainEpoch, Vec<&SectorOnChainInfo>)>, out: Seq<SectorEpochSet>, s: SVs, q: QuantSpec)
    requires
        btm_grp(m, s, q, s.len() as int), btm_sorted_entries(m, ge), out.len() == ge.len(), forall|i: int| 0 <= i < out.len() ==> (#[trigger] out[i]).epoch == ge[i].0,
        q_ok(q), forall|j: int| 0 <= j < s.len() ==> ep_ok((#[trigger] s[j]).expiration as int),
    ensures
        forall|i: int, j: int| 0 <= i < j < out.len() ==> (#[trigger] out[i]).epoch < (#[trigger] out[j]).epoch,
        forall|j: int| 0 <= j < s.len() ==> has_group(out, quantize_up_spec(q, (#[trigger] s[j]).expiration as int)),
{
    assert forall|i: int, j: int| 0 <= i < j < out.len() implies (#[trigger] out[i]).epoch < (#[trigger] out[j]).epoch by { assert(ge[i].0 < ge[j].0); }
    assert forall|j: int| 0 <= j < s.len() implies has_group(out, quantize_up_spec(q, (#[trigger] s[j]).expiration as int)) by {
        let x = s[j].expiration as int;
        lemma_quantize_range(q, x);
        let e = quantize_up_spec(q, x) as ChainEpoch;
        assert(e as int == quantize_up_spec(q, x));
        assert(exp_hit(s, q, s.len() as int, e as int));
        assert(m.dom().contains(e));
        let i = choose|i: int| 0 <= i < ge.len() && #[trigger] ge[i].0 == e;
        assert(out[i].epoch == e);
    }
}
pub fn vx_id<T>(x: T) -> (r: T) ensures r == x { x }

//@ fn actors/miner/src/expiration_queue.rs group_new_sectors_by_declared_expiration r19=0 sigsub0="impl IntoIterator < Item = & 'a SectorOnChainInfo >=>&'a [SectorOnChainInfo]" sub0="sectors_by_expiration . into_iter () . map=>{ let ghost __vx_m = sectors_by_expiration.view(); let __vx_ents = sectors_by_expiration.vx_into_sorted(); let ghost __vx_ge = __vx_ents@; let mut __vx_out: Vec<SectorEpochSet> = Vec::new(); for (expiration, epoch_sectors) in it: __vx_ents invariant it.seq() == __vx_ge, __vx_out@.len() == it.index@, q_ok(quant), btm_sorted_entries(__vx_m, __vx_ge), btm_grp(__vx_m, svs(sectors@), quant, sectors@.len() as int), forall|i: int| 0 <= i < it.index@ ==> (#[trigger] __vx_out@[i]).epoch == __vx_ge[i].0, groups_ok(__vx_out@, svs(sectors@), quant, sector_size.v, it.index@ as int) { let ghost __vx_es = epoch_sectors@; let __vx_g: SectorEpochSet = vx_id" sub1="| (expiration , epoch_sectors) |=>" sub2=". collect ()=>; proof { assert(mem_pref(__vx_es, __vx_es.len() as int) =~= rvs(__vx_es)); } __vx_out.push(__vx_g); } proof { lemma_groups_cover(__vx_m, __vx_ge, __vx_out@, svs(sectors@), quant); assert forall|j: int| 0 <= j < sectors@.len() implies has_group(__vx_out@, quantize_up_spec(quant, (#[trigger] sectors@[j]).expiration as int)) by { assert(svs(sectors@)[j].expiration == sectors@[j].expiration); } } __vx_out }"
    requires q_ok(quant), forall|j: int| 0 <= j < sectors@.len() ==> ep_ok((#[trigger] sectors@[j]).expiration as int),
    ensures
        // one group per quantised expiration epoch that occurs, in increasing epoch order
        forall|i: int, j: int| 0 <= i < j < r@.len() ==> (#[trigger] r@[i]).epoch < (#[trigger] r@[j]).epoch,
        forall|j: int| 0 <= j < sectors@.len() ==> has_group(r@, quantize_up_spec(quant, (#[trigger] sectors@[j]).expiration as int)),
        // each group carries exactly the sectors expiring at its epoch (in the order given): their numbers, n * size raw power, and the sums of qa power, pledge and daily fee
        groups_ok(r@, svs(sectors@), quant, sector_size.v, r@.len() as int),
//@ loop 0
            invariant
                __vx_i0 <= __vx_v0@.len(), __vx_v0@ == sectors@,
                btm_grp(sectors_by_expiration.view(), svs(sectors@), quant, __vx_i0 as int),
            decreases __vx_v0@.len() - __vx_i0,
//@ loopstart 0
                let ghost __vx_mb = sectors_by_expiration.view();
//@ loopend 0
                proof { lemma_btm_grp_step(__vx_mb, sectors_by_expiration.view(), svs(sectors@), quant, __vx_i0 as int - 1, sector, q_expiration); }
//@ loop 1 iter=it2
            invariant
                it2.seq() == __vx_es,
                sector_numbers@ == nums(mem_pref(__vx_es, it2.index@ as int)),
                total_power.raw@ == sector_size.v * it2.index@, total_power.qa@ == sum_qa(sector_size.v, mem_pref(__vx_es, it2.index@ as int)),
                total_pledge@ == sum_pledge(mem_pref(__vx_es, it2.index@ as int)), total_daily_fee@ == sum_fee(mem_pref(__vx_es, it2.index@ as int)),
//@ loopend 1
                    proof {
                        lemma_mem_pref_step(__vx_es, it2.index@ as int, sector_size.v);
                        assert(sector_size.v * (it2.index@ + 1) == sector_size.v * it2.index@ + sector_size.v) by (nonlinear_arith);
                    }
//@ end

/// the content a list of (active, on-time) sectors contributes to an expiration set: their numbers, pledge, n * size raw power, qa power, daily fee
pub open spec fn sec_esv(mem: SVs, size: u64) -> EsV {
    EsV { on_time: nums(mem).to_set(), early: Set::empty(), pledge: sum_pledge(mem), active_raw: size * mem.len(), active_qa: sum_qa(size, mem), faulty_raw: 0, faulty_qa: 0, fee: sum_fee(mem) }
}
pub proof fn lemma_sec_esv_push(mem: SVs, v: SecV, size: u64)
    ensures esv_eq(sec_esv(mem.push(v), size), esv_add(sec_esv(mem, size), sec_esv(seq![v], size))), esv_eq(sec_esv(Seq::<SecV>::empty(), size), esv_zero()),
{
    let m2 = mem.push(v);
    assert(m2.drop_last() =~= mem);
    let one = seq![v];
    assert(one.drop_last() =~= Seq::<SecV>::empty());
    assert(one.last() == v);
    assert(sum_qa(size, one) == qa_power_spec(size, v)) by { assert(sum_qa(size, one.drop_last()) == 0); }
    assert(sum_pledge(one) == v.initial_pledge) by { assert(sum_pledge(one.drop_last()) == 0); }
    assert(sum_fee(one) == v.daily_fee) by { assert(sum_fee(one.drop_last()) == 0); }
    assert(nums(m2) =~= nums(mem).push(v.sector_number));
    assert(nums(one) =~= seq![v.sector_number]);
    assert(nums(m2).to_set() =~= nums(mem).to_set().union(nums(one).to_set())) by {
        assert forall|x: u64| nums(m2).to_set().contains(x) <==> nums(mem).to_set().union(nums(one).to_set()).contains(x) by {
            if nums(m2).contains(x) { let i = choose|i: int| 0 <= i < nums(m2).len() && nums(m2)[i] == x; if i < mem.len() { assert(nums(mem)[i] == x); } else { assert(nums(one)[0] == x); } }
            if nums(mem).contains(x) { let i = choose|i: int| 0 <= i < nums(mem).len() && nums(mem)[i] == x; assert(nums(m2)[i] == x); }
            if nums(one).contains(x) { assert(nums(m2)[mem.len() as int] == x); }
        }
    }
    assert(size * m2.len() == size * mem.len() + size * one.len()) by (nonlinear_arith) requires m2.len() == mem.len() + 1, one.len() == 1;
    assert(nums(Seq::<SecV>::empty()).to_set() =~= Set::<u64>::empty());
    assert(size * 0 == 0);
}
pub open spec fn seq_has(es: Seq<int>, k: int, e: int) -> bool { exists|i: int| 0 <= i < k && #[trigger] es[i] == e }
pub open spec fn distinct(es: Seq<int>) -> bool { forall|i: int, j: int| 0 <= i < j < es.len() ==> #[trigger] es[i] != #[trigger] es[j] }
/// the sum, over the first k epochs of `es`, of what the sectors (among the first n) expiring at that epoch contribute
pub open spec fn cat(es: Seq<int>, s: SVs, q: QuantSpec, size: u64, n: int, k: int) -> EsV
    decreases k
{ if k <= 0 { esv_zero() } else { esv_add(cat(es, s, q, size, n, k - 1), sec_esv(grp(s, q, es[k - 1], n), size)) } }
/// one more sector adds its contribution to exactly the group of its epoch
pub proof fn lemma_cat_step(es: Seq<int>, s: SVs, q: QuantSpec, size: u64, n: int, k: int)
    requires 0 < n <= s.len(), 0 <= k <= es.len(), distinct(es),
    ensures esv_eq(cat(es, s, q, size, n, k),
        if seq_has(es, k, quantize_up_spec(q, s[n - 1].expiration as int)) { esv_add(cat(es, s, q, size, n - 1, k), sec_esv(seq![s[n - 1]], size)) } else { cat(es, s, q, size, n - 1, k) }),
    decreases k
{
    let estar = quantize_up_spec(q, s[n - 1].expiration as int);
    let one = sec_esv(seq![s[n - 1]], size);
    if k > 0 {
        lemma_cat_step(es, s, q, size, n, k - 1);
        let e = es[k - 1];
        let a1 = cat(es, s, q, size, n - 1, k - 1);
        let g1 = sec_esv(grp(s, q, e, n - 1), size);
        if e == estar {
            assert(!seq_has(es, k - 1, estar)) by { if seq_has(es, k - 1, estar) { let i = choose|i: int| 0 <= i < k - 1 && #[trigger] es[i] == estar; assert(es[i] != es[k - 1]); } }
            assert(seq_has(es, k, estar)) by { assert(0 <= k - 1 < k && es[k - 1] == estar); }
            lemma_sec_esv_push(grp(s, q, e, n - 1), s[n - 1], size);
            assert(esv_eq(esv_add(a1, esv_add(g1, one)), esv_add(esv_add(a1, g1), one)));
        } else {
            assert(grp(s, q, e, n) == grp(s, q, e, n - 1));
            assert(seq_has(es, k, estar) <==> seq_has(es, k - 1, estar)) by {
                if seq_has(es, k, estar) { let i = choose|i: int| 0 <= i < k && #[trigger] es[i] == estar; assert(i < k - 1); }
                if seq_has(es, k - 1, estar) { let i = choose|i: int| 0 <= i < k - 1 && #[trigger] es[i] == estar; assert(0 <= i < k && es[i] == estar); }
            }
            assert(esv_eq(esv_add(esv_add(a1, one), g1), esv_add(esv_add(a1, g1), one)));
        }
    } else {
        assert(!seq_has(es, k, estar));
    }
}
/// grouping loses nothing: the groups of all occurring epochs together contribute what the sectors contribute
pub proof fn lemma_cat_total(es: Seq<int>, s: SVs, q: QuantSpec, size: u64, n: int)
    requires 0 <= n <= s.len(), distinct(es), forall|j: int| 0 <= j < n ==> seq_has(es, es.len() as int, quantize_up_spec(q, (#[trigger] s[j]).expiration as int)),
    ensures esv_eq(cat(es, s, q, size, n, es.len() as int), sec_esv(s.take(n), size)),
    decreases n
{
    if n == 0 {
        lemma_cat_zero(es, s, q, size, es.len() as int);
        assert(s.take(0) =~= Seq::<SecV>::empty());
        lemma_sec_esv_push(Seq::<SecV>::empty(), s[0], size);
    } else {
        lemma_cat_total(es, s, q, size, n - 1);
        lemma_cat_step(es, s, q, size, n, es.len() as int);
        lemma_sec_esv_push(s.take(n - 1), s[n - 1], size);
        assert(s.take(n) =~= s.take(n - 1).push(s[n - 1]));
    }
}
pub proof fn lemma_cat_zero(es: Seq<int>, s: SVs, q: QuantSpec, size: u64, k: int)
    requires 0 <= k <= es.len(),
    ensures esv_eq(cat(es, s, q, size, 0, k), esv_zero()),
    decreases k
{
    if k > 0 {
        lemma_cat_zero(es, s, q, size, k - 1);
        assert(grp(s, q, es[k - 1], 0) =~= Seq::<SecV>::empty());
        lemma_sec_esv_push(Seq::<SecV>::empty(), arbitrary(), size);
    }
}
/// a sector number is in the total exactly when some group holds it
pub proof fn lemma_cat_on_time(es: Seq<int>, s: SVs, q: QuantSpec, size: u64, n: int, k: int)
    requires 0 <= k <= es.len(),
    ensures forall|x: u64| #[trigger] cat(es, s, q, size, n, k).on_time.contains(x) <==> exists|i: int| 0 <= i < k && nums(grp(s, q, #[trigger] es[i], n)).to_set().contains(x),
    decreases k
{
    if k > 0 {
        lemma_cat_on_time(es, s, q, size, n, k - 1);
        assert forall|x: u64| #[trigger] cat(es, s, q, size, n, k).on_time.contains(x) <==> exists|i: int| 0 <= i < k && nums(grp(s, q, #[trigger] es[i], n)).to_set().contains(x) by {
            if cat(es, s, q, size, n, k - 1).on_time.contains(x) { let i = choose|i: int| 0 <= i < k - 1 && nums(grp(s, q, #[trigger] es[i], n)).to_set().contains(x); assert(0 <= i < k && nums(grp(s, q, es[i], n)).to_set().contains(x)); }
            if nums(grp(s, q, es[k - 1], n)).to_set().contains(x) { assert(0 <= k - 1 < k); }
            if exists|i: int| 0 <= i < k && nums(grp(s, q, #[trigger] es[i], n)).to_set().contains(x) {
                let i = choose|i: int| 0 <= i < k && nums(grp(s, q, #[trigger] es[i], n)).to_set().contains(x);
                if i < k - 1 { assert(cat(es, s, q, size, n, k - 1).on_time.contains(x)); }
            }
        }
    }
}
pub open spec fn gepochs(gs: Seq<SectorEpochSet>) -> Seq<int> { gs.map_values(|g: SectorEpochSet| g.epoch as int) }
/// the queue after the first k groups were added: the entry of each of their epochs grew by the group's content, every other entry is untouched
pub open spec fn q_added(m0: EMap, m: EMap, es: Seq<int>, s: SVs, q: QuantSpec, size: u64, k: int) -> bool {
    &&& forall|i: int| 0 <= i < k ==> 0 <= #[trigger] es[i] <= 0x7fff_ffff_ffff_ffff
            && esv_eq(eq_at(m, es[i] as u64), esv_add(eq_at(m0, es[i] as u64), sec_esv(grp(s, q, es[i], s.len() as int), size)))
    &&& forall|e: u64| !seq_has(es, k, e as int) ==> (#[trigger] m.dom().contains(e) <==> m0.dom().contains(e))
    &&& forall|e: u64| !seq_has(es, k, e as int) && m0.dom().contains(e) ==> #[trigger] m[e] == m0[e]
    // conservation: the total of the queue grew by exactly the groups' contents
    &&& esv_eq(eq_total(m), esv_add(eq_total(m0), cat(es, s, q, size, s.len() as int, k)))
}
/// writing `at(e) + d` into the entry at e adds exactly `d` to the total of the queue
pub proof fn lemma_total_add(mb: EMap, ma: EMap, e: u64, d: EsV)
    requires eq_upd(mb, ma, e, esv_add(eq_at(mb, e), d)),
    ensures esv_eq(eq_total(ma), esv_add(eq_total(mb), d)),
{
    let (qa, qb) = (qmap(ma), qmap(mb));
    assert(qa.dom().contains(e));
    lemma_qsum_remove(qa, e);
    assert(qa.remove(e) =~= qb.remove(e)) by {
        assert forall|k: u64| qa.remove(e).dom().contains(k) implies #[trigger] qa.remove(e)[k] == qb.remove(e)[k] by { assert(ma[k] == mb[k]); }
    }
    let rest = qsum(qb.remove(e));
    if mb.dom().contains(e) { lemma_qsum_remove(qb, e); } else { assert(qb.remove(e) =~= qb); }
    let at = eq_at(mb, e);
    assert(esv_eq(esv_add(esv_add(at, d), rest), esv_add(esv_add(at, rest), d)));
    assert(esv_eq(esv_add(esv_zero(), rest), rest));
}
pub proof fn lemma_q_added_step(m0: EMap, mb: EMap, ma: EMap, es: Seq<int>, s: SVs, q: QuantSpec, size: u64, k: int, d: EsV)
    requires
        q_added(m0, mb, es, s, q, size, k), 0 <= k < es.len(), distinct(es), 0 <= es[k] <= 0x7fff_ffff_ffff_ffff,
        esv_eq(d, sec_esv(grp(s, q, es[k], s.len() as int), size)),
        eq_upd(mb, ma, es[k] as u64, esv_add(eq_at(mb, es[k] as u64), d)),
    ensures q_added(m0, ma, es, s, q, size, k + 1),
{
    let e = es[k] as u64;
    assert(!seq_has(es, k, es[k])) by { if seq_has(es, k, es[k]) { let i = choose|i: int| 0 <= i < k && #[trigger] es[i] == es[k]; assert(es[i] != es[k]); } }
    assert(eq_at(mb, e) == eq_at(m0, e));
    assert forall|i: int| 0 <= i < k + 1 implies 0 <= #[trigger] es[i] <= 0x7fff_ffff_ffff_ffff
            && esv_eq(eq_at(ma, es[i] as u64), esv_add(eq_at(m0, es[i] as u64), sec_esv(grp(s, q, es[i], s.len() as int), size))) by {
        if i < k { assert(es[i] != es[k]); let ei = es[i] as u64; assert(ei != e); if mb.dom().contains(ei) { assert(ma[ei] == mb[ei]); } assert(eq_at(ma, ei) == eq_at(mb, ei)); }
    }
    assert forall|x: u64| !seq_has(es, k + 1, x as int) implies (#[trigger] ma.dom().contains(x) <==> m0.dom().contains(x)) && (m0.dom().contains(x) ==> ma[x] == m0[x]) by {
        assert(x != e) by { if x == e { assert(0 <= k < k + 1 && es[k] == x as int); } }
        assert(!seq_has(es, k, x as int)) by { if seq_has(es, k, x as int) { let i = choose|i: int| 0 <= i < k && #[trigger] es[i] == x as int; assert(0 <= i < k + 1 && es[i] == x as int); } }
        if m0.dom().contains(x) { assert(mb[x] == m0[x]); assert(ma[x] == mb[x]); }
    }
    lemma_total_add(mb, ma, e, d);
    let c = cat(es, s, q, size, s.len() as int, k);
    assert(esv_eq(esv_add(esv_add(eq_total(m0), c), d), esv_add(eq_total(m0), esv_add(c, d))));
}
/// the effect of add_active_sectors on the queue, epoch by epoch, and on its total
pub open spec fn q_added_post(m0: EMap, m1: EMap, s: SVs, q: QuantSpec, size: u64) -> bool {
    // "every sector lands in the set at quantize_up(sector.expiration)" and nothing else happens: the entry of every epoch e grows by exactly the content of
    // the sectors whose expiration quantises to e (for an epoch at which none expires: by nothing)
    &&& forall|e: u64| #![trigger eq_at(m1, e)] esv_eq(eq_at(m1, e), esv_add(eq_at(m0, e), sec_esv(grp(s, q, e as int, s.len() as int), size)))
    // conservation: the total of the queue grows by exactly the sectors' numbers, power, pledge and daily fee
    &&& esv_eq(eq_total(m1), esv_add(eq_total(m0), sec_esv(s, size)))
}
pub proof fn lemma_q_added_done(m0: EMap, m1: EMap, es: Seq<int>, s: SVs, q: QuantSpec, size: u64)
    requires
        q_added(m0, m1, es, s, q, size, es.len() as int), distinct(es), q_ok(q),
        forall|j: int| 0 <= j < s.len() ==> seq_has(es, es.len() as int, quantize_up_spec(q, (#[trigger] s[j]).expiration as int)),
    ensures q_added_post(m0, m1, s, q, size),
{
    let n = s.len() as int;
    assert forall|e: u64| #![trigger eq_at(m1, e)] esv_eq(eq_at(m1, e), esv_add(eq_at(m0, e), sec_esv(grp(s, q, e as int, n), size))) by {
        if seq_has(es, es.len() as int, e as int) {
            let i = choose|i: int| 0 <= i < es.len() && #[trigger] es[i] == e as int;
            assert(es[i] as u64 == e);
        } else {
            assert(!exp_hit(s, q, n, e as int)) by {
                if exp_hit(s, q, n, e as int) { let j = choose|j: int| 0 <= j < n && quantize_up_spec(q, (#[trigger] s[j]).expiration as int) == e as int; }
            }
            lemma_grp_none(s, q, e as int, n);
            lemma_sec_esv_push(Seq::<SecV>::empty(), arbitrary(), size);
            if m0.dom().contains(e) { assert(m1[e] == m0[e]); }
            assert(eq_at(m1, e) == eq_at(m0, e));
        }
    }
    lemma_cat_total(es, s, q, size, n);
    assert(s.take(n) =~= s);
}

/// the state of the loop of add_active_sectors after k groups
pub open spec fn aas_inv(gs: Seq<SectorEpochSet>, s: SVs, q: QuantSpec, size: u64, k: int, m0: EMap, m: EMap, tp: PowerPair, tpl: int, tfee: int, ts: Seq<BitField>) -> bool {
    let c = cat(gepochs(gs), s, q, size, s.len() as int, k);
    &&& q_added(m0, m, gepochs(gs), s, q, size, k)
    &&& tp.raw@ == c.active_raw && tp.qa@ == c.active_qa && tpl == c.pledge && tfee == c.fee
    &&& ts.len() == k && forall|i: int| 0 <= i < k ==> (#[trigger] ts[i])@ == nums(grp(s, q, gs[i].epoch as int, s.len() as int)).to_set()
}
/// the groups handed to the loop: in increasing epoch order, one for every occurring epoch, each with exactly its members (postcondition of the grouping function)
pub open spec fn aas_groups(gs: Seq<SectorEpochSet>, ss: Seq<SectorOnChainInfo>, q: QuantSpec, size: u64) -> bool {
    &&& forall|i: int, j: int| 0 <= i < j < gs.len() ==> (#[trigger] gs[i]).epoch < (#[trigger] gs[j]).epoch
    &&& forall|j: int| 0 <= j < ss.len() ==> has_group(gs, quantize_up_spec(q, (#[trigger] ss[j]).expiration as int))
    &&& groups_ok(gs, svs(ss), q, size, gs.len() as int)
    &&& forall|j: int| 0 <= j < ss.len() ==> small((#[trigger] ss[j]).expiration as int)
}
pub proof fn lemma_aas_groups(gs: Seq<SectorEpochSet>, ss: Seq<SectorOnChainInfo>, q: QuantSpec, size: u64)
    requires aas_groups(gs, ss, q, size), q_ok(q),
    ensures
        distinct(gepochs(gs)),
        forall|j: int| 0 <= j < svs(ss).len() ==> seq_has(gepochs(gs), gepochs(gs).len() as int, quantize_up_spec(q, (#[trigger] svs(ss)[j]).expiration as int)),
        forall|i: int| 0 <= i < gs.len() ==> quantize_up_spec(q, (#[trigger] gs[i]).epoch as int) == gs[i].epoch && ep_ok(gs[i].epoch as int),
{
    let es = gepochs(gs);
    assert forall|i: int, j: int| 0 <= i < j < es.len() implies #[trigger] es[i] != #[trigger] es[j] by { assert(gs[i].epoch < gs[j].epoch); }
    assert forall|j: int| 0 <= j < svs(ss).len() implies seq_has(es, es.len() as int, quantize_up_spec(q, (#[trigger] svs(ss)[j]).expiration as int)) by {
        assert(svs(ss)[j].expiration == ss[j].expiration);
        let e = quantize_up_spec(q, ss[j].expiration as int);
        assert(has_group(gs, e));
        let i = choose|i: int| 0 <= i < gs.len() && (#[trigger] gs[i]).epoch == e;
        assert(es[i] == e);
    }
    assert forall|i: int| 0 <= i < gs.len() implies quantize_up_spec(q, (#[trigger] gs[i]).epoch as int) == gs[i].epoch && ep_ok(gs[i].epoch as int) by {
        let s = svs(ss);
        assert(exp_hit(s, q, s.len() as int, gs[i].epoch as int));
        let j = choose|j: int| 0 <= j < s.len() && quantize_up_spec(q, (#[trigger] s[j]).expiration as int) == gs[i].epoch as int;
        lemma_quantize_idem(q, s[j].expiration as int);
        lemma_quantize_range(q, s[j].expiration as int);
        assert(s[j].expiration == ss[j].expiration);
    }
}
pub proof fn lemma_aas_step(gs: Seq<SectorEpochSet>, ss: Seq<SectorOnChainInfo>, q: QuantSpec, size: u64, k: int, m0: EMap, mb: EMap, ma: EMap,
    tp0: PowerPair, tpl0: int, tfee0: int, ts0: Seq<BitField>, tp: PowerPair, tpl: int, tfee: int, ts: Seq<BitField>)
    requires
        aas_groups(gs, ss, q, size), q_ok(q), 0 <= k < gs.len(),
        aas_inv(gs, svs(ss), q, size, k, m0, mb, tp0, tpl0, tfee0, ts0),
        ts == ts0.push(ts[k]), ts[k]@ == gs[k].sectors@.to_set(),
        tp.raw@ == tp0.raw@ + gs[k].power.raw@, tp.qa@ == tp0.qa@ + gs[k].power.qa@, tpl == tpl0 + gs[k].pledge@, tfee == tfee0 + gs[k].daily_fee@,
        gs[k].epoch >= 0,
        // the entry at the group's epoch grew by: the group's numbers as on-time sectors, its power as ACTIVE power, its pledge and fee; no early sectors, no faulty power
        exists|d: EsV| esv_eq(d, EsV { on_time: ts[k]@, early: Set::empty(), pledge: gs[k].pledge@, active_raw: gs[k].power.raw@, active_qa: gs[k].power.qa@, faulty_raw: 0, faulty_qa: 0, fee: gs[k].daily_fee@ })
            && eq_upd(mb, ma, gs[k].epoch as u64, #[trigger] esv_add(eq_at(mb, gs[k].epoch as u64), d)),
    ensures aas_inv(gs, svs(ss), q, size, k + 1, m0, ma, tp, tpl, tfee, ts),
{
    let s = svs(ss);
    let es = gepochs(gs);
    lemma_aas_groups(gs, ss, q, size);
    let mem = grp(s, q, gs[k].epoch as int, s.len() as int);
    assert(grp_ok(gs[k], mem, size));
    let d = choose|d: EsV| esv_eq(d, EsV { on_time: ts[k]@, early: Set::empty(), pledge: gs[k].pledge@, active_raw: gs[k].power.raw@, active_qa: gs[k].power.qa@, faulty_raw: 0, faulty_qa: 0, fee: gs[k].daily_fee@ })
            && eq_upd(mb, ma, gs[k].epoch as u64, #[trigger] esv_add(eq_at(mb, gs[k].epoch as u64), d));
    assert(esv_eq(d, sec_esv(mem, size)));
    assert(es[k] == gs[k].epoch as int);
    lemma_q_added_step(m0, mb, ma, es, s, q, size, k, d);
    assert forall|i: int| 0 <= i < k + 1 implies (#[trigger] ts[i])@ == nums(grp(s, q, gs[i].epoch as int, s.len() as int)).to_set() by { if i < k { assert(ts[i] == ts0[i]); } }
}
/// what add_active_sectors returns, as one value: (sector numbers, power, pledge, daily fee) = the content contributed by the sectors
pub open spec fn ret_esv(r: (BitField, PowerPair, TokenAmount, TokenAmount)) -> EsV {
    EsV { on_time: r.0@, early: Set::empty(), pledge: r.2@, active_raw: r.1.raw@, active_qa: r.1.qa@, faulty_raw: 0, faulty_qa: 0, fee: r.3@ }
}
pub proof fn lemma_aas_done(gs: Seq<SectorEpochSet>, ss: Seq<SectorOnChainInfo>, q: QuantSpec, size: u64, m0: EMap, m1: EMap, tp: PowerPair, tpl: int, tfee: int, ts: Seq<BitField>, u: Set<u64>)
    requires
        aas_groups(gs, ss, q, size), q_ok(q), aas_inv(gs, svs(ss), q, size, gs.len() as int, m0, m1, tp, tpl, tfee, ts), bf_union_is(ts, u),
    ensures
        q_added_post(m0, m1, svs(ss), q, size),
        esv_eq(EsV { on_time: u, early: Set::empty(), pledge: tpl, active_raw: tp.raw@, active_qa: tp.qa@, faulty_raw: 0, faulty_qa: 0, fee: tfee }, sec_esv(svs(ss), size)),
{
    let s = svs(ss);
    let es = gepochs(gs);
    let n = s.len() as int;
    lemma_aas_groups(gs, ss, q, size);
    lemma_q_added_done(m0, m1, es, s, q, size);
    lemma_cat_total(es, s, q, size, n);
    assert(s.take(n) =~= s);
    lemma_cat_on_time(es, s, q, size, n, es.len() as int);
    let c = cat(es, s, q, size, n, es.len() as int);
    assert(u =~= c.on_time) by {
        assert forall|x: u64| u.contains(x) <==> c.on_time.contains(x) by {
            if u.contains(x) { let i = choose|i: int| 0 <= i < ts.len() && (#[trigger] ts[i])@.contains(x); assert(es[i] == gs[i].epoch as int); assert(nums(grp(s, q, es[i], n)).to_set().contains(x)); }
            if c.on_time.contains(x) { let i = choose|i: int| 0 <= i < es.len() && nums(grp(s, q, #[trigger] es[i], n)).to_set().contains(x); assert(es[i] == gs[i].epoch as int); assert(ts[i]@.contains(x)); }
        }
    }
}

//@ fn actors/miner/src/expiration_queue.rs ExpirationQueue::add_active_sectors sigsub0="impl IntoIterator < Item = & 'a SectorOnChainInfo >=>&'a [SectorOnChainInfo]" sub0="group_new_sectors_by_declared_expiration (sector_size , sectors , self . quant)=>{ let __vx_g = group_new_sectors_by_declared_expiration(sector_size, sectors, self.quant); proof { __vx_gs = __vx_g@; lemma_sec_esv_push(Seq::<SecV>::empty(), arbitrary(), sector_size.v); assert(esv_eq(esv_add(eq_total(self.amt.view()), esv_zero()), eq_total(self.amt.view()))); } __vx_g }" sub1="BitField :: union (total_sectors . iter ())=>{ let __vx_u = BitField::union(&total_sectors); proof { lemma_aas_done(__vx_gs, sectors@, self.quant, sector_size.v, old(self).amt.view(), self.amt.view(), total_power, total_pledge@, total_daily_fee@, total_sectors@, __vx_u@); } __vx_u }"
    requires q_ok(old(self).quant), forall|j: int| 0 <= j < sectors@.len() ==> small((#[trigger] sectors@[j]).expiration as int),
    ensures
        final(self).quant == old(self).quant,
        // "the returned sector-number set and power are exactly those of the sectors passed in": union of their numbers, sum of their power_for_sector
        // (raw = n * sector size), sum of pledge and of daily fee
        r.is_ok() ==> esv_eq(ret_esv(r->Ok_0), sec_esv(svs(sectors@), sector_size.v)),
        // every sector lands at quantize_up(its expiration), as active on-time power; the queue total grows by exactly that (see q_added_post)
        r.is_ok() ==> q_added_post(old(self).amt.view(), final(self).amt.view(), svs(sectors@), old(self).quant, sector_size.v),
//@ entry
        let ghost mut __vx_gs: Seq<SectorEpochSet> = Seq::empty();
//@ loop 0 iter=it
            invariant
                it.seq() == __vx_gs, self.quant == old(self).quant, q_ok(self.quant), aas_groups(__vx_gs, sectors@, self.quant, sector_size.v),
                aas_inv(__vx_gs, svs(sectors@), self.quant, sector_size.v, it.index@ as int, old(self).amt.view(), self.amt.view(), total_power, total_pledge@, total_daily_fee@, total_sectors@),
//@ loopstart 0
            let ghost __vx_mb = self.amt.view();
            let ghost (__vx_tp0, __vx_tpl0, __vx_tfee0, __vx_ts0) = (total_power, total_pledge@, total_daily_fee@, total_sectors@);
            proof { lemma_aas_groups(__vx_gs, sectors@, self.quant, sector_size.v); }
//@ loopend 0
            proof {
                let k = it.index@ as int;
                lemma_aas_step(__vx_gs, sectors@, self.quant, sector_size.v, k, old(self).amt.view(), __vx_mb, self.amt.view(),
                    __vx_tp0, __vx_tpl0, __vx_tfee0, __vx_ts0, total_power, total_pledge@, total_daily_fee@, total_sectors@);
            }
//@ end

// ======================= finding sectors in the queue: group_expiration_set, check_no_early_sectors =======================
//@ item actors/miner/src/expiration_queue.rs SectorExpirationSet attr="pub"
pub type ByNum<'a> = Map<u64, &'a SectorOnChainInfo>;
/// the table of requested sectors by number is keyed by each sector's own number
pub open spec fn by_wf(by: ByNum) -> bool { forall|u: u64| by.dom().contains(u) ==> (#[trigger] by[u]).sector_number == u }
/// the numbers among the first n bits that are wanted, in order
pub open spec fn flt(bits: Seq<u64>, inc: Set<u64>, n: int) -> Seq<u64>
    decreases n
{ if n <= 0 { Seq::empty() } else if inc.contains(bits[n - 1]) { flt(bits, inc, n - 1).push(bits[n - 1]) } else { flt(bits, inc, n - 1) } }
/// the infos of a list of numbers
pub open spec fn by_mem(by: ByNum, us: Seq<u64>) -> SVs { us.map_values(|u: u64| secv(*by[u])) }
pub proof fn lemma_flt(bits: Seq<u64>, inc: Set<u64>, n: int)
    requires 0 <= n <= bits.len(), forall|i: int, j: int| 0 <= i < j < bits.len() ==> bits[i] < bits[j],
    ensures
        forall|u: u64| #[trigger] flt(bits, inc, n).contains(u) <==> inc.contains(u) && bits.take(n).contains(u),
        forall|i: int, j: int| 0 <= i < j < flt(bits, inc, n).len() ==> flt(bits, inc, n)[i] < flt(bits, inc, n)[j],
        forall|i: int| 0 <= i < flt(bits, inc, n).len() && n > 0 ==> flt(bits, inc, n)[i] <= bits[n - 1],
    decreases n
{
    if n > 0 {
        lemma_flt(bits, inc, n - 1);
        let p = flt(bits, inc, n - 1);
        let f = flt(bits, inc, n);
        let b = bits[n - 1];
        let (tn, tn1) = (bits.take(n), bits.take(n - 1));
        assert(tn =~= tn1.push(b));
        assert forall|u: u64| #[trigger] f.contains(u) <==> inc.contains(u) && bits.take(n).contains(u) by {
            if f.contains(u) { let i = choose|i: int| 0 <= i < f.len() && f[i] == u; if i < p.len() { assert(p[i] == u); assert(p.contains(u)); let j = choose|j: int| 0 <= j < tn1.len() && tn1[j] == u; assert(tn[j] == u); } else { assert(tn[n - 1] == u); } }
            if inc.contains(u) && bits.take(n).contains(u) {
                let j = choose|j: int| 0 <= j < tn.len() && tn[j] == u;
                if j < n - 1 { assert(tn1[j] == u); assert(tn1.contains(u)); assert(p.contains(u)); let i = choose|i: int| 0 <= i < p.len() && p[i] == u; assert(f[i] == u); }
                else { assert(f[p.len() as int] == u); }
            }
        }
        assert forall|i: int| 0 <= i < p.len() implies p[i] < b by { if n - 1 > 0 { assert(p[i] <= bits[n - 2]); assert(bits[n - 2] < bits[n - 1]); } else { assert(p.len() == 0); } }
    }
}

//@ fn actors/miner/src/expiration_queue.rs check_no_early_sectors
    ensures r.is_ok() <==> set.view().disjoint(es.early_sectors@),
//@ loop 0 iter=it
            invariant
                it.seq() == es.early_sectors.iter_spec(), it.seq().to_set() == es.early_sectors@,
                forall|j: int| 0 <= j < it.index@ ==> !set.view().contains(#[trigger] it.seq()[j]),
//@ before "Ok (())"
        proof {
            let bits = es.early_sectors.iter_spec();
            assert forall|u: u64| set.view().contains(u) && es.early_sectors@.contains(u) implies false by {
                assert(bits.to_set().contains(u));
                let j = choose|j: int| 0 <= j < bits.len() && bits[j] == u;
            }
        }
//@ end

//@ fn actors/miner/src/expiration_queue.rs group_expiration_set
    requires forall|u: u64| old(include_set).view().contains(u) ==> sectors.view().dom().contains(u),
    ensures
        r.expiration_set == es, r.sector_epoch_set.epoch == expiration,
        // the requested sectors found among the on-time sectors of this entry, in increasing order; they are no longer outstanding
        r.sector_epoch_set.sectors@ == flt(es.on_time_sectors.iter_spec(), old(include_set).view(), es.on_time_sectors.iter_spec().len() as int),
        final(include_set).view() =~= old(include_set).view().difference(es.on_time_sectors@),
        es.on_time_sectors.iter_spec().to_set() == es.on_time_sectors@,
        forall|i: int, j: int| 0 <= i < j < es.on_time_sectors.iter_spec().len() ==> es.on_time_sectors.iter_spec()[i] < es.on_time_sectors.iter_spec()[j],
        // and their aggregate: numbers, n * size raw power, sums of qa power, pledge and daily fee
        by_wf(sectors.view()) ==> grp_ok(r.sector_epoch_set, by_mem(sectors.view(), r.sector_epoch_set.sectors@), sector_size.v),
//@ entry
        let ghost __vx_bits = es.on_time_sectors.iter_spec();
        let ghost __vx_inc = include_set.view();
//@ loop 0 iter=it
            invariant
                it.seq() == __vx_bits, __vx_bits.to_set() == es.on_time_sectors@, forall|i: int, j: int| 0 <= i < j < __vx_bits.len() ==> __vx_bits[i] < __vx_bits[j],
                forall|u: u64| __vx_inc.contains(u) ==> sectors.view().dom().contains(u),
                include_set.view() =~= __vx_inc.difference(__vx_bits.take(it.index@ as int).to_set()),
                sector_numbers@ == flt(__vx_bits, __vx_inc, it.index@ as int),
                total_power.raw@ == sector_size.v * sector_numbers@.len(), total_power.qa@ == sum_qa(sector_size.v, by_mem(sectors.view(), sector_numbers@)),
                total_pledge@ == sum_pledge(by_mem(sectors.view(), sector_numbers@)), total_daily_fee@ == sum_fee(by_mem(sectors.view(), sector_numbers@)),
//@ loopstart 0
            let ghost __vx_sn0 = sector_numbers@;
            proof {
                let k = it.index@ as int;
                assert(!__vx_bits.take(k).to_set().contains(u)) by {
                    let tk = __vx_bits.take(k);
                    if tk.contains(u) { let j = choose|j: int| 0 <= j < tk.len() && tk[j] == u; assert(__vx_bits[j] < __vx_bits[k]); }
                }
            }
//@ loopend 0
            proof {
                let k = it.index@ as int;
                let (tk, tk1) = (__vx_bits.take(k), __vx_bits.take(k + 1));
                assert(tk1 =~= tk.push(u));
                assert(tk1.to_set() =~= tk.to_set().insert(u)) by {
                    assert forall|x: u64| tk1.to_set().contains(x) <==> tk.to_set().insert(u).contains(x) by {
                        if tk1.contains(x) { let j = choose|j: int| 0 <= j < tk1.len() && tk1[j] == x; if j < k { assert(tk[j] == x); } }
                        if tk.contains(x) { let j = choose|j: int| 0 <= j < tk.len() && tk[j] == x; assert(tk1[j] == x); }
                        if x == u { assert(tk1[k] == x); }
                    }
                }
                if __vx_inc.contains(u) {
                    let bm = by_mem(sectors.view(), sector_numbers@);
                    assert(bm.drop_last() =~= by_mem(sectors.view(), __vx_sn0));
                    assert(bm.last() == secv(*sectors.view()[u]));
                    assert(sector_size.v * (__vx_sn0.len() + 1) == sector_size.v * __vx_sn0.len() + sector_size.v) by (nonlinear_arith);
                }
            }
//@ before "SectorExpirationSet"
        proof {
            assert(__vx_bits.take(__vx_bits.len() as int) =~= __vx_bits);
            if by_wf(sectors.view()) {
                let us = sector_numbers@;
                lemma_flt(__vx_bits, __vx_inc, __vx_bits.len() as int);
                assert(nums(by_mem(sectors.view(), us)) =~= us) by {
                    assert forall|i: int| 0 <= i < us.len() implies nums(by_mem(sectors.view(), us))[i] == us[i] by { assert(us.contains(us[i])); assert(__vx_inc.contains(us[i])); }
                }
            }
        }
//@ end

// ======================= sums over SETS of requested sectors (order-free: the queue finds sectors in its own order) =======================
pub type VNum = Map<u64, SecV>;
/// the requested sectors by number (a later info for the same number replaces an earlier one — `sectors_by_number.insert`)
pub open spec fn byn(s: SVs, n: int) -> VNum
    decreases n
{ if n <= 0 { Map::empty() } else { byn(s, n - 1).insert(s[n - 1].sector_number, s[n - 1]) } }
pub open spec fn vn_wf(bv: VNum) -> bool { forall|u: u64| bv.dom().contains(u) ==> (#[trigger] bv[u]).sector_number == u }
pub open spec fn vn_mem(bv: VNum, us: Seq<u64>) -> SVs { us.map_values(|u: u64| bv[u]) }
/// what the sectors numbered `us` contribute (as active on-time sectors): their numbers, pledge, power, daily fee — summed in any order
pub open spec fn ssum(bv: VNum, us: Set<u64>, size: u64) -> EsV
    decreases us.len()
{ if us.len() == 0 { esv_zero() } else { let u = us.choose(); esv_add(sec_esv(seq![bv[u]], size), ssum(bv, us.remove(u), size)) } }
pub proof fn lemma_ssum_remove(bv: VNum, us: Set<u64>, size: u64, u: u64)
    requires us.contains(u),
    ensures ssum(bv, us, size) == esv_add(sec_esv(seq![bv[u]], size), ssum(bv, us.remove(u), size)),
    decreases us.len()
{
    let c = us.choose();
    assert(us.len() != 0);
    if c != u {
        lemma_ssum_remove(bv, us.remove(c), size, u);
        lemma_ssum_remove(bv, us.remove(u), size, c);
        assert(us.remove(c).remove(u) =~= us.remove(u).remove(c));
        lemma_esv_add_comm(sec_esv(seq![bv[c]], size), sec_esv(seq![bv[u]], size), ssum(bv, us.remove(c).remove(u), size));
    }
}
/// a list without repetitions sums to the sum over its set
pub proof fn lemma_seq_ssum(bv: VNum, us: Seq<u64>, size: u64)
    requires us.no_duplicates(),
    ensures esv_eq(sec_esv(vn_mem(bv, us), size), ssum(bv, us.to_set(), size)),
    decreases us.len()
{
    if us.len() == 0 {
        assert(us.to_set() =~= Set::<u64>::empty());
        assert(vn_mem(bv, us) =~= Seq::<SecV>::empty());
        lemma_sec_esv_push(Seq::<SecV>::empty(), arbitrary(), size);
    } else {
        let t = us.drop_last();
        let u = us.last();
        lemma_seq_ssum(bv, t, size);
        assert(!t.contains(u)) by { if t.contains(u) { let i = choose|i: int| 0 <= i < t.len() && t[i] == u; assert(us[i] == us[us.len() - 1]); } }
        assert(us.to_set() =~= t.to_set().insert(u)) by {
            assert forall|x: u64| us.to_set().contains(x) <==> t.to_set().insert(u).contains(x) by {
                if us.contains(x) { let i = choose|i: int| 0 <= i < us.len() && us[i] == x; if i < t.len() { assert(t[i] == x); } }
                if t.contains(x) { let i = choose|i: int| 0 <= i < t.len() && t[i] == x; assert(us[i] == x); }
                if x == u { assert(us[us.len() - 1] == x); }
            }
        }
        lemma_ssum_remove(bv, us.to_set(), size, u);
        assert(us.to_set().remove(u) =~= t.to_set());
        assert(vn_mem(bv, us) =~= vn_mem(bv, t).push(bv[u]));
        lemma_sec_esv_push(vn_mem(bv, t), bv[u], size);
        let (a, one) = (sec_esv(vn_mem(bv, t), size), sec_esv(seq![bv[u]], size));
        assert(esv_eq(esv_add(a, one), esv_add(one, a)));
    }
}
/// the sum over a disjoint union is the sum of the sums
pub proof fn lemma_ssum_union(bv: VNum, a: Set<u64>, b: Set<u64>, size: u64)
    requires a.disjoint(b),
    ensures esv_eq(ssum(bv, a.union(b), size), esv_add(ssum(bv, a, size), ssum(bv, b, size))),
    decreases b.len()
{
    if b.len() == 0 {
        assert(b =~= Set::<u64>::empty());
        assert(a.union(b) =~= a);
        let x = ssum(bv, a, size);
        assert(esv_eq(esv_add(x, esv_zero()), x));
    } else {
        let u = b.choose();
        lemma_ssum_union(bv, a, b.remove(u), size);
        lemma_ssum_remove(bv, a.union(b), size, u);
        lemma_ssum_remove(bv, b, size, u);
        assert(a.union(b).remove(u) =~= a.union(b.remove(u)));
        let (one, x, y) = (sec_esv(seq![bv[u]], size), ssum(bv, a, size), ssum(bv, b.remove(u), size));
        assert(esv_eq(esv_add(one, esv_add(x, y)), esv_add(x, esv_add(one, y))));
    }
}
/// for a list of sectors with pairwise distinct numbers, the sum over the list is the sum over the set of its numbers
pub proof fn lemma_byn(s: SVs, n: int)
    requires 0 <= n <= s.len(),
    ensures
        vn_wf(byn(s, n)),
        forall|u: u64| #[trigger] byn(s, n).dom().contains(u) <==> exists|j: int| 0 <= j < n && (#[trigger] s[j]).sector_number == u,
        forall|u: u64| byn(s, n).dom().contains(u) ==> exists|j: int| 0 <= j < n && #[trigger] s[j] == #[trigger] byn(s, n)[u],
        nums(s).no_duplicates() ==> forall|j: int| 0 <= j < n ==> byn(s, n)[(#[trigger] s[j]).sector_number] == s[j],
    decreases n
{
    if n > 0 {
        lemma_byn(s, n - 1);
        let (b1, b) = (byn(s, n - 1), byn(s, n));
        let kn = s[n - 1].sector_number;
        assert forall|u: u64| #[trigger] b.dom().contains(u) <==> exists|j: int| 0 <= j < n && (#[trigger] s[j]).sector_number == u by {
            if b1.dom().contains(u) { let j = choose|j: int| 0 <= j < n - 1 && (#[trigger] s[j]).sector_number == u; assert(0 <= j < n && s[j].sector_number == u); }
            if u == kn { assert(0 <= n - 1 < n && s[n - 1].sector_number == u); }
            if exists|j: int| 0 <= j < n && (#[trigger] s[j]).sector_number == u { let j = choose|j: int| 0 <= j < n && (#[trigger] s[j]).sector_number == u; if j < n - 1 { assert(b1.dom().contains(u)); } }
        }
        assert forall|u: u64| b.dom().contains(u) implies exists|j: int| 0 <= j < n && #[trigger] s[j] == #[trigger] b[u] by {
            if u == kn { assert(0 <= n - 1 < n && s[n - 1] == b[u]); } else { let j = choose|j: int| 0 <= j < n - 1 && #[trigger] s[j] == #[trigger] b1[u]; assert(0 <= j < n && s[j] == b[u]); }
        }
        if nums(s).no_duplicates() {
            assert forall|j: int| 0 <= j < n implies b[(#[trigger] s[j]).sector_number] == s[j] by {
                if j < n - 1 { assert(nums(s)[j] != nums(s)[n - 1]); }
            }
        }
    }
}
pub proof fn lemma_byn_dom(s: SVs)
    ensures byn(s, s.len() as int).dom() =~= nums(s).to_set(),
{
    let n = s.len() as int;
    lemma_byn(s, n);
    assert forall|u: u64| nums(s).to_set().contains(u) <==> byn(s, n).dom().contains(u) by {
        if nums(s).contains(u) { let j = choose|j: int| 0 <= j < nums(s).len() && nums(s)[j] == u; assert(s[j].sector_number == u); }
        if byn(s, n).dom().contains(u) { let j = choose|j: int| 0 <= j < n && (#[trigger] s[j]).sector_number == u; assert(nums(s)[j] == u); }
    }
}
pub proof fn lemma_byn_total(s: SVs, size: u64)
    requires nums(s).no_duplicates(),
    ensures esv_eq(sec_esv(s, size), ssum(byn(s, s.len() as int), byn(s, s.len() as int).dom(), size)),
{
    let n = s.len() as int;
    let bv = byn(s, n);
    lemma_byn(s, n);
    lemma_seq_ssum(bv, nums(s), size);
    assert(vn_mem(bv, nums(s)) =~= s) by { assert forall|j: int| 0 <= j < n implies vn_mem(bv, nums(s))[j] == s[j] by { assert(nums(s)[j] == s[j].sector_number); } }
    assert(nums(s).to_set() =~= bv.dom()) by {
        assert forall|u: u64| nums(s).to_set().contains(u) <==> bv.dom().contains(u) by {
            if nums(s).contains(u) { let j = choose|j: int| 0 <= j < nums(s).len() && nums(s)[j] == u; assert(s[j].sector_number == u); }
            if bv.dom().contains(u) { let j = choose|j: int| 0 <= j < n && (#[trigger] s[j]).sector_number == u; assert(nums(s)[j] == u); }
        }
    }
}

// ======================= find_sectors_by_expiration =======================
//@ include prelude/miner_expq_groups.rs
pub type FGroups = Seq<SectorExpirationSet>;
pub open spec fn hits(g: SectorExpirationSet) -> Seq<u64> { g.sector_epoch_set.sectors@ }
pub open spec fn gep(g: SectorExpirationSet) -> ChainEpoch { g.sector_epoch_set.epoch }
/// one group: a copy of the queue entry at its epoch, with the requested sectors found among that entry's on-time sectors (in increasing order, at least one) and their aggregate
pub open spec fn fgroup_ok(m: EMap, bv: VNum, size: u64, g: SectorExpirationSet) -> bool {
    &&& 0 <= gep(g) && m.dom().contains(gep(g) as u64) && esv(g.expiration_set) == esv(m[gep(g) as u64])
    &&& hits(g).len() > 0 && (forall|i: int, j: int| 0 <= i < j < hits(g).len() ==> hits(g)[i] < hits(g)[j])
    &&& forall|u: u64| #[trigger] hits(g).contains(u) ==> bv.dom().contains(u) && esv(m[gep(g) as u64]).on_time.contains(u)
    &&& grp_ok(g.sector_epoch_set, vn_mem(bv, hits(g)), size)
}
/// the groups found so far, with the requested numbers `rem` still outstanding: every requested number is outstanding or in exactly one group
pub open spec fn fse_inv(m: EMap, bv: VNum, size: u64, gs: FGroups, rem: Set<u64>) -> bool {
    &&& forall|i: int| 0 <= i < gs.len() ==> fgroup_ok(m, bv, size, #[trigger] gs[i])
    &&& forall|i: int, j: int| 0 <= i < j < gs.len() ==> gep(#[trigger] gs[i]) != gep(#[trigger] gs[j])
    &&& forall|i: int, j: int, u: u64| #![trigger hits(gs[i]).contains(u), gs[j]] 0 <= i < gs.len() && 0 <= j < gs.len() && i != j && hits(gs[i]).contains(u) ==> !hits(gs[j]).contains(u)
    &&& forall|i: int, u: u64| #![trigger hits(gs[i]).contains(u)] 0 <= i < gs.len() && hits(gs[i]).contains(u) ==> !rem.contains(u)
    &&& forall|u: u64| bv.dom().contains(u) ==> rem.contains(u) || fse_found(gs, u)
    &&& rem.subset_of(bv.dom())
}
pub open spec fn fse_found(gs: FGroups, u: u64) -> bool { exists|i: int| 0 <= i < gs.len() && hits(#[trigger] gs[i]).contains(u) }
/// what find_sectors_by_expiration returns: groups in increasing epoch order that partition the requested sector numbers
pub open spec fn fse_post(m: EMap, bv: VNum, size: u64, gs: FGroups) -> bool {
    &&& fse_inv(m, bv, size, gs, Set::<u64>::empty())
    &&& forall|i: int, j: int| 0 <= i < j < gs.len() ==> gep(#[trigger] gs[i]) < gep(#[trigger] gs[j])
}
pub open spec fn byv(by: ByNum) -> VNum { by.map_values(|r: &SectorOnChainInfo| secv(*r)) }
/// scanning the entry `es` at (fresh) epoch `e` of the queue: the outstanding numbers found in its on-time set form a new group, or nothing changes
pub proof fn lemma_fse_scan(m: EMap, by: ByNum, size: u64, gs0: FGroups, gs1: FGroups, rem0: Set<u64>, rem1: Set<u64>, g: SectorExpirationSet, e: ChainEpoch)
    requires
        fse_inv(m, byv(by), size, gs0, rem0), by_wf(by),
        e >= 0, esv(g.expiration_set) == eq_at(m, e as u64), gep(g) == e,
        forall|i: int| 0 <= i < gs0.len() ==> gep(#[trigger] gs0[i]) != e,
        hits(g) == flt(g.expiration_set.on_time_sectors.iter_spec(), rem0, g.expiration_set.on_time_sectors.iter_spec().len() as int),
        g.expiration_set.on_time_sectors.iter_spec().to_set() == g.expiration_set.on_time_sectors@,
        forall|i: int, j: int| 0 <= i < j < g.expiration_set.on_time_sectors.iter_spec().len() ==> g.expiration_set.on_time_sectors.iter_spec()[i] < g.expiration_set.on_time_sectors.iter_spec()[j],
        rem1 =~= rem0.difference(g.expiration_set.on_time_sectors@),
        grp_ok(g.sector_epoch_set, by_mem(by, hits(g)), size),
        gs1 == (if hits(g).len() > 0 { gs0.push(g) } else { gs0 }),
    ensures fse_inv(m, byv(by), size, gs1, rem1),
{
    let bv = byv(by);
    let bits = g.expiration_set.on_time_sectors.iter_spec();
    lemma_flt(bits, rem0, bits.len() as int);
    assert(bits.take(bits.len() as int) =~= bits);
    assert forall|u: u64| hits(g).contains(u) <==> rem0.contains(u) && g.expiration_set.on_time_sectors@.contains(u) by { assert(bits.to_set().contains(u) <==> bits.contains(u)); }
    if hits(g).len() > 0 {
        let u0 = hits(g)[0];
        assert(hits(g).contains(u0));
        assert(m.dom().contains(e as u64)) by { if !m.dom().contains(e as u64) { assert(eq_at(m, e as u64).on_time =~= Set::<u64>::empty()); } }
        assert(by_mem(by, hits(g)) =~= vn_mem(bv, hits(g)));
        assert(fgroup_ok(m, bv, size, g));
        let n0 = gs0.len() as int;
        assert forall|i: int| 0 <= i < gs1.len() implies fgroup_ok(m, bv, size, #[trigger] gs1[i]) by { if i < n0 { assert(gs1[i] == gs0[i]); } }
        assert forall|i: int, j: int| 0 <= i < j < gs1.len() implies gep(#[trigger] gs1[i]) != gep(#[trigger] gs1[j]) by { assert(gs1[i] == gs0[i]); if j < n0 { assert(gs1[j] == gs0[j]); } }
        assert forall|i: int, j: int, u: u64| #![trigger hits(gs1[i]).contains(u), gs1[j]] 0 <= i < gs1.len() && 0 <= j < gs1.len() && i != j && hits(gs1[i]).contains(u) implies !hits(gs1[j]).contains(u) by {
            if i < n0 && j < n0 { assert(gs1[i] == gs0[i] && gs1[j] == gs0[j]); }
            else if i < n0 { assert(gs1[i] == gs0[i]); assert(!rem0.contains(u)); }
            else { assert(gs1[j] == gs0[j]); assert(rem0.contains(u)); if hits(gs0[j]).contains(u) { assert(!rem0.contains(u)); } }
        }
        assert forall|i: int, u: u64| #![trigger hits(gs1[i]).contains(u)] 0 <= i < gs1.len() && hits(gs1[i]).contains(u) implies !rem1.contains(u) by { if i < n0 { assert(gs1[i] == gs0[i]); } }
        assert forall|u: u64| bv.dom().contains(u) implies rem1.contains(u) || fse_found(gs1, u) by {
            if rem0.contains(u) { if !rem1.contains(u) { assert(hits(g).contains(u)); assert(hits(gs1[n0]).contains(u)); } }
            else { assert(fse_found(gs0, u)); let i = choose|i: int| 0 <= i < gs0.len() && hits(#[trigger] gs0[i]).contains(u); assert(gs1[i] == gs0[i]); assert(hits(gs1[i]).contains(u)); }
        }
    } else {
        assert(rem1 =~= rem0) by {
            assert forall|u: u64| rem0.contains(u) implies !g.expiration_set.on_time_sectors@.contains(u) by { if g.expiration_set.on_time_sectors@.contains(u) { assert(hits(g).contains(u)); } }
        }
    }
}
/// epoch `e` is the key of one of the first n entries visited
pub open spec fn fse_seen(es: Seq<EEnt>, n: int, e: ChainEpoch) -> bool { exists|j: int| 0 <= j < n && (#[trigger] es[j]).0 as ChainEpoch == e }
pub proof fn lemma_fse_sorted(m: EMap, bv: VNum, size: u64, gs0: FGroups, gs1: FGroups)
    requires
        fse_inv(m, bv, size, gs0, Set::<u64>::empty()), gs1.len() == gs0.len(),
        exists|p: Seq<int>| is_perm(p, gs0.len()) && forall|i: int| 0 <= i < gs0.len() ==> #[trigger] gs1[i] == gs0[p[i]],
        forall|i: int, j: int| 0 <= i < j < gs1.len() ==> gep(#[trigger] gs1[i]) <= gep(#[trigger] gs1[j]),
    ensures fse_post(m, bv, size, gs1),
{
    let p = choose|p: Seq<int>| is_perm(p, gs0.len()) && forall|i: int| 0 <= i < gs0.len() ==> #[trigger] gs1[i] == gs0[p[i]];
    let n = gs0.len() as int;
    assert forall|i: int| 0 <= i < n implies fgroup_ok(m, bv, size, #[trigger] gs1[i]) by { assert(gs1[i] == gs0[p[i]]); }
    assert forall|i: int, j: int| 0 <= i < j < n implies gep(#[trigger] gs1[i]) < gep(#[trigger] gs1[j]) by {
        assert(gs1[i] == gs0[p[i]] && gs1[j] == gs0[p[j]]); assert(p[i] != p[j]);
        if p[i] < p[j] { assert(gep(gs0[p[i]]) != gep(gs0[p[j]])); } else { assert(gep(gs0[p[j]]) != gep(gs0[p[i]])); }
    }
    assert forall|i: int, j: int, u: u64| #![trigger hits(gs1[i]).contains(u), gs1[j]] 0 <= i < n && 0 <= j < n && i != j && hits(gs1[i]).contains(u) implies !hits(gs1[j]).contains(u) by {
        assert(gs1[i] == gs0[p[i]] && gs1[j] == gs0[p[j]]);
        if i < j { assert(p[i] != p[j]); } else { assert(p[j] != p[i]); }
    }
    assert forall|u: u64| bv.dom().contains(u) implies fse_found(gs1, u) by {
        assert(fse_found(gs0, u));
        let j = choose|j: int| 0 <= j < gs0.len() && hits(#[trigger] gs0[j]).contains(u);
        assert(perm_hits(p, j));
        let i = choose|i: int| 0 <= i < p.len() && #[trigger] p[i] == j;
        assert(gs1[i] == gs0[p[i]]);
        assert(hits(gs1[i]).contains(u));
    }
}
/// second pass (the entries `es` of the queue in key order, the first n visited): every group found so far is for a declared epoch or for the key of a visited entry
pub open spec fn fse_p2(decl: Map<ChainEpoch, bool>, gs: FGroups, es: Seq<EEnt>, n: int) -> bool {
    forall|i: int| 0 <= i < gs.len() ==> decl.dom().contains(gep(#[trigger] gs[i])) || fse_seen(es, n, gep(gs[i]))
}
pub proof fn lemma_fse_p2_mono(decl: Map<ChainEpoch, bool>, gs: FGroups, es: Seq<EEnt>, n: int)
    requires 0 < n <= es.len(), forall|i: int| 0 <= i < gs.len() ==> decl.dom().contains(gep(#[trigger] gs[i])) || fse_seen(es, n - 1, gep(gs[i])) || gep(gs[i]) == es[n - 1].0 as ChainEpoch,
    ensures fse_p2(decl, gs, es, n),
{
    assert forall|i: int| 0 <= i < gs.len() implies decl.dom().contains(gep(#[trigger] gs[i])) || fse_seen(es, n, gep(gs[i])) by {
        if fse_seen(es, n - 1, gep(gs[i])) { let j = choose|j: int| 0 <= j < n - 1 && (#[trigger] es[j]).0 as ChainEpoch == gep(gs[i]); assert(0 <= j < n && (es[j].0 as ChainEpoch) == gep(gs[i])); }
        else if gep(gs[i]) == es[n - 1].0 as ChainEpoch { assert(0 <= n - 1 < n && (es[n - 1].0 as ChainEpoch) == gep(gs[i])); }
    }
}
/// first pass (the declared epochs `des`, in increasing order, the first k done): every group found so far is for a declared epoch, none later than the last one done
pub open spec fn fse_p1(decl: Map<ChainEpoch, bool>, gs: FGroups, des: Seq<(ChainEpoch, bool)>, k: int) -> bool {
    forall|i: int| 0 <= i < gs.len() ==> decl.dom().contains(gep(#[trigger] gs[i])) && 0 < k <= des.len() && gep(gs[i]) <= des[k - 1].0
}
/// the bookkeeping of the first loop: requested sectors by number, the set of their numbers, the set of their quantised expirations
pub open spec fn fse_tables(s: SVs, q: QuantSpec, n: int, by: ByNum, rem: Set<u64>, decl: Map<ChainEpoch, bool>) -> bool {
    &&& byv(by) =~= byn(s, n) && by_wf(by) && rem =~= by.dom()
    &&& forall|e: ChainEpoch| #[trigger] decl.dom().contains(e) <==> exp_hit(s, q, n, e as int)
}

//@ fn actors/miner/src/expiration_queue.rs ExpirationQueue::find_sectors_by_expiration r19=0 sub0="declared_expirations . iter ()=>declared_expirations.vx_iter_sorted()" sub1="(& expiration , _)=>(expiration, _vx_b)" sub2="self . amt . for_each_while=>let __vx_es = self.amt.vx_entries_sorted()?; let ghost __vx_ges = __vx_es@; let mut __vx_i: usize = 0; let mut epoch: u64 = 0; let __vx_d = ExpirationSet::empty(); let mut es: &ExpirationSet = &__vx_d; vx_done" sub3="| epoch , es |=>while vx_next(&__vx_es, &mut __vx_i, &mut epoch, &mut es) invariant __vx_es@ == __vx_ges, amt_entries(self.amt.view(), __vx_ges), eq_keys_ok(self.amt.view()), __vx_i <= __vx_ges.len(), by_wf(sectors_by_number.view()), byv(sectors_by_number.view()) == __vx_bv, declared_expirations.view() == __vx_decl, fse_inv(self.amt.view(), __vx_bv, sector_size.v, expiration_groups@, all_remaining.view()), forall|u: u64| all_remaining.view().contains(u) ==> sectors_by_number.view().dom().contains(u), fse_p2(__vx_decl, expiration_groups@, __vx_ges, __vx_i as int), decreases __vx_ges.len() - __vx_i" sub4="return Ok (true) ;=>continue;" sub5="Ok (! all_remaining . is_empty ())=>{ proof { lemma_fse_scan(self.amt.view(), sectors_by_number.view(), sector_size.v, __vx_gs0, expiration_groups@, __vx_rem0, all_remaining.view(), group, epoch); assert forall|i: int| 0 <= i < expiration_groups@.len() implies __vx_decl.dom().contains(gep(#[trigger] expiration_groups@[i])) || fse_seen(__vx_ges, __vx_i as int - 1, gep(expiration_groups@[i])) || gep(expiration_groups@[i]) == __vx_ges[__vx_i as int - 1].0 as ChainEpoch by { if i < __vx_gs0.len() { assert(expiration_groups@[i] == __vx_gs0[i]); } } lemma_fse_p2_mono(__vx_decl, expiration_groups@, __vx_ges, __vx_i as int); } } if all_remaining.is_empty() { break; }" sub6="expiration_groups . sort_by_key (| g | g . sector_epoch_set . epoch)=>vx_sort_groups_by_epoch(&mut expiration_groups)"
    requires
        q_ok(self.quant), eq_keys_ok(self.amt.view()),
        forall|j: int| 0 <= j < sectors@.len() ==> small((#[trigger] sectors@[j]).expiration as int),
    ensures
        // the requested sectors, found where they are actually scheduled (on time): groups in increasing epoch order, each a copy of a queue entry with the
        // requested sectors found in it; every requested number is in exactly one group (Err if one is not found on time anywhere)
        r.is_ok() ==> fse_post(self.amt.view(), byn(svs(sectors@), sectors@.len() as int), sector_size.v, r->Ok_0@),
//@ loop 0
            invariant
                __vx_i0 <= __vx_v0@.len(), __vx_v0@ == sectors@,
                fse_tables(svs(sectors@), self.quant, __vx_i0 as int, sectors_by_number.view(), all_remaining.view(), declared_expirations.view()),
            decreases __vx_v0@.len() - __vx_i0,
//@ loopstart 0
                let ghost (__vx_by0, __vx_dc0) = (sectors_by_number.view(), declared_expirations.view());
//@ loopend 0
                proof {
                    let n = __vx_i0 as int - 1;
                    let s = svs(sectors@);
                    assert(s[n] == secv(*sector));
                    assert(byv(sectors_by_number.view()) =~= byn(s, n + 1));
                    assert forall|e: ChainEpoch| #[trigger] declared_expirations.view().dom().contains(e) <==> exp_hit(s, self.quant, n + 1, e as int) by {
                        if exp_hit(s, self.quant, n, e as int) { let j = choose|j: int| 0 <= j < n && quantize_up_spec(self.quant, (#[trigger] s[j]).expiration as int) == e; assert(0 <= j < n + 1 && quantize_up_spec(self.quant, s[j].expiration as int) == e); }
                        if e == q_expiration { assert(0 <= n < n + 1 && quantize_up_spec(self.quant, s[n].expiration as int) == e); }
                        if exp_hit(s, self.quant, n + 1, e as int) { let j = choose|j: int| 0 <= j < n + 1 && quantize_up_spec(self.quant, (#[trigger] s[j]).expiration as int) == e; if j < n { assert(exp_hit(s, self.quant, n, e as int)); } }
                    }
                }
//@ before "let mut expiration_groups"
        let ghost __vx_bv = byv(sectors_by_number.view());
        let ghost __vx_decl = declared_expirations.view();
        proof {
            assert(__vx_bv == byn(svs(sectors@), sectors@.len() as int));
            assert(fse_inv(self.amt.view(), __vx_bv, sector_size.v, Seq::<SectorExpirationSet>::empty(), all_remaining.view()));
        }
//@ loop 1 iter=it
            invariant
                btm_sorted_entries(__vx_decl, it.seq()), by_wf(sectors_by_number.view()), byv(sectors_by_number.view()) == __vx_bv, q_ok(self.quant),
                forall|e: ChainEpoch| #[trigger] __vx_decl.dom().contains(e) <==> exp_hit(svs(sectors@), self.quant, sectors@.len() as int, e as int),
                forall|j: int| 0 <= j < sectors@.len() ==> small((#[trigger] sectors@[j]).expiration as int),
                fse_inv(self.amt.view(), __vx_bv, sector_size.v, expiration_groups@, all_remaining.view()),
                forall|u: u64| all_remaining.view().contains(u) ==> sectors_by_number.view().dom().contains(u),
                fse_p1(__vx_decl, expiration_groups@, it.seq(), it.index@ as int),
//@ loopstart 1
            let ghost (__vx_gs0, __vx_rem0) = (expiration_groups@, all_remaining.view());
            proof {
                assert(__vx_decl.dom().contains(expiration));
                let s = svs(sectors@);
                let j = choose|j: int| 0 <= j < s.len() && quantize_up_spec(self.quant, (#[trigger] s[j]).expiration as int) == expiration as int;
                assert(s[j].expiration == sectors@[j].expiration);
                lemma_quantize_range(self.quant, s[j].expiration as int);
                assert forall|i: int| 0 <= i < __vx_gs0.len() implies gep(#[trigger] __vx_gs0[i]) != expiration by {
                    assert(__vx_decl.dom().contains(gep(__vx_gs0[i])));
                    assert(it.index@ > 0);
                    let (a, b) = (it.seq()[it.index@ - 1], it.seq()[it.index@ as int]);
                    assert(a.0 < b.0);
                }
            }
//@ loopend 1
            proof {
                lemma_fse_scan(self.amt.view(), sectors_by_number.view(), sector_size.v, __vx_gs0, expiration_groups@, __vx_rem0, all_remaining.view(), group, expiration);
                assert(fse_p1(__vx_decl, expiration_groups@, it.seq(), it.index@ as int + 1)) by {
                    assert forall|i: int| 0 <= i < expiration_groups@.len() implies __vx_decl.dom().contains(gep(#[trigger] expiration_groups@[i])) && gep(expiration_groups@[i]) <= it.seq()[it.index@ as int].0 by {
                        if i < __vx_gs0.len() { assert(expiration_groups@[i] == __vx_gs0[i]); let (a, b) = (it.seq()[it.index@ - 1], it.seq()[it.index@ as int]); assert(a.0 < b.0); }
                    }
                }
            }
//@ before "check_no_early_sectors"
                    let ghost (__vx_gs0, __vx_rem0) = (expiration_groups@, all_remaining.view());
                    proof {
                        assert(self.amt.view().dom().contains(__vx_ges[__vx_i as int - 1].0));
                        assert forall|i: int| 0 <= i < __vx_gs0.len() implies gep(#[trigger] __vx_gs0[i]) != epoch by {
                            if fse_seen(__vx_ges, __vx_i as int - 1, gep(__vx_gs0[i])) {
                                let j = choose|j: int| 0 <= j < __vx_i as int - 1 && (#[trigger] __vx_ges[j]).0 as ChainEpoch == gep(__vx_gs0[i]);
                                assert(__vx_ges[j].0 < __vx_ges[__vx_i as int - 1].0);
                                assert(self.amt.view().dom().contains(__vx_ges[j].0));
                            }
                        }
                    }
//@ before "expiration_groups . sort_by_key"
        let ghost __vx_gsu = expiration_groups@;
        proof { assert(all_remaining.view() =~= Set::<u64>::empty()); }
//@ before "Ok (expiration_groups)"
        proof { lemma_fse_sorted(self.amt.view(), __vx_bv, sector_size.v, __vx_gsu, expiration_groups@); }
//@ end

// ======================= remove_active_sectors =======================
/// every key of the queue is a quantised epoch of chain magnitude (keys are only ever created by `add`, which quantises)
pub open spec fn eq_keys_quant(m: EMap, q: QuantSpec) -> bool { forall|k: u64| #[trigger] m.dom().contains(k) ==> quantize_up_spec(q, k as int) == k && ep_ok(k as int) }
/// an entry that is left without sectors has no pledge, power or fee left either (ExpirationSet::is_empty looks at the sectors only: such an entry is deleted
/// whatever amounts it still carries)
pub open spec fn zero_if_empty(v: EsV) -> bool {
    v.on_time =~= Set::<u64>::empty() && v.early =~= Set::<u64>::empty() ==> v.pledge == 0 && v.active_raw == 0 && v.active_qa == 0 && v.faulty_raw == 0 && v.faulty_qa == 0 && v.fee == 0
}
/// equality of the six amounts (pledge, active and faulty power, fee), leaving the sector sets aside
pub open spec fn amt_eq(a: EsV, b: EsV) -> bool {
    a.pledge == b.pledge && a.active_raw == b.active_raw && a.active_qa == b.active_qa && a.faulty_raw == b.faulty_raw && a.faulty_qa == b.faulty_qa && a.fee == b.fee
}
/// the numbers found by the first k groups
pub open spec fn fset(gs: FGroups, k: int) -> Set<u64>
    decreases k
{ if k <= 0 { Set::empty() } else { fset(gs, k - 1).union(hits(gs[k - 1]).to_set()) } }
pub proof fn lemma_fset(gs: FGroups, k: int)
    requires 0 <= k <= gs.len(),
    ensures forall|u: u64| #[trigger] fset(gs, k).contains(u) <==> exists|i: int| 0 <= i < k && hits(#[trigger] gs[i]).contains(u),
    decreases k
{
    if k > 0 {
        lemma_fset(gs, k - 1);
        assert forall|u: u64| #[trigger] fset(gs, k).contains(u) <==> exists|i: int| 0 <= i < k && hits(#[trigger] gs[i]).contains(u) by {
            if fset(gs, k - 1).contains(u) { let i = choose|i: int| 0 <= i < k - 1 && hits(#[trigger] gs[i]).contains(u); assert(0 <= i < k && hits(gs[i]).contains(u)); }
            if hits(gs[k - 1]).contains(u) { assert(0 <= k - 1 < k); }
            if exists|i: int| 0 <= i < k && hits(#[trigger] gs[i]).contains(u) { let i = choose|i: int| 0 <= i < k && hits(#[trigger] gs[i]).contains(u); if i < k - 1 { assert(fset(gs, k - 1).contains(u)); } }
        }
    }
}
/// what group g takes out of the entry at its epoch: its sectors as on-time sectors with their pledge, ACTIVE power and fee
pub open spec fn grp_d(bv: VNum, size: u64, g: SectorExpirationSet) -> EsV { sec_esv(vn_mem(bv, hits(g)), size) }
/// the entry at key e holds content v — and does not exist when v has no sector left
pub open spec fn eq_entry(m: EMap, e: u64, v: EsV) -> bool {
    if v.on_time =~= Set::<u64>::empty() && v.early =~= Set::<u64>::empty() { !m.dom().contains(e) } else { m.dom().contains(e) && esv_eq(esv(m[e]), v) }
}
pub open spec fn gs_has_epoch(gs: FGroups, k: int, e: u64) -> bool { exists|i: int| 0 <= i < k && gep(#[trigger] gs[i]) == e }
/// the queue after the sectors of the first k groups were removed
pub open spec fn q_removed(m0: EMap, m: EMap, bv: VNum, size: u64, gs: FGroups, k: int) -> bool {
    &&& forall|i: int| 0 <= i < k ==> eq_entry(m, gep(#[trigger] gs[i]) as u64, esv_sub(eq_at(m0, gep(gs[i]) as u64), grp_d(bv, size, gs[i])))
    &&& forall|e: u64| !gs_has_epoch(gs, k, e) ==> (#[trigger] m.dom().contains(e) <==> m0.dom().contains(e))
    &&& forall|e: u64| !gs_has_epoch(gs, k, e) && m0.dom().contains(e) ==> #[trigger] m[e] == m0[e]
    // conservation: what was in the queue is what is left plus what was taken out — provided no entry was deleted (for want of sectors) with amounts left in it
    &&& (forall|i: int| 0 <= i < k ==> zero_if_empty(esv_sub(eq_at(m0, gep(#[trigger] gs[i]) as u64), grp_d(bv, size, gs[i])))) ==> amt_eq(eq_total(m0), esv_add(eq_total(m), ssum(bv, fset(gs, k), size)))
}
/// writing `at(e) - d` into the entry at e (deleting it when no sector is left) takes exactly the amounts of `d` out of the total of the queue
pub proof fn lemma_total_sub(mb: EMap, ma: EMap, e: u64, d: EsV)
    requires mb.dom().contains(e), eq_upd_or_del(mb, ma, e, esv_sub(eq_at(mb, e), d)), zero_if_empty(esv_sub(eq_at(mb, e), d)),
    ensures amt_eq(eq_total(mb), esv_add(eq_total(ma), d)),
{
    let (qa, qb) = (qmap(ma), qmap(mb));
    lemma_qsum_remove(qb, e);
    let rest = qsum(qb.remove(e));
    let v = esv_sub(eq_at(mb, e), d);
    if v.on_time =~= Set::<u64>::empty() && v.early =~= Set::<u64>::empty() {
        assert(qa =~= qb.remove(e));
    } else {
        assert(qa.dom().contains(e));
        lemma_qsum_remove(qa, e);
        assert(qa.remove(e) =~= qb.remove(e)) by {
            assert forall|k: u64| qa.remove(e).dom().contains(k) implies #[trigger] qa.remove(e)[k] == qb.remove(e)[k] by { assert(ma[k] == mb[k]); }
        }
    }
}
pub proof fn lemma_q_removed_step(m0: EMap, mb: EMap, ma: EMap, bv: VNum, size: u64, gs: FGroups, k: int, d: EsV)
    requires
        fse_post(m0, bv, size, gs), vn_wf(bv), q_removed(m0, mb, bv, size, gs, k), 0 <= k < gs.len(),
        esv_eq(d, grp_d(bv, size, gs[k])),
        eq_upd_or_del(mb, ma, gep(gs[k]) as u64, esv_sub(eq_at(mb, gep(gs[k]) as u64), d)),
    ensures q_removed(m0, ma, bv, size, gs, k + 1),
{
    let e = gep(gs[k]) as u64;
    assert(fgroup_ok(m0, bv, size, gs[k]));
    assert(!gs_has_epoch(gs, k, e)) by { if gs_has_epoch(gs, k, e) { let i = choose|i: int| 0 <= i < k && gep(#[trigger] gs[i]) == e; assert(gep(gs[i]) < gep(gs[k])); } }
    assert(mb.dom().contains(e) && mb[e] == m0[e]);
    let v = esv_sub(eq_at(mb, e), d);
    assert forall|i: int| 0 <= i < k + 1 implies eq_entry(ma, gep(#[trigger] gs[i]) as u64, esv_sub(eq_at(m0, gep(gs[i]) as u64), grp_d(bv, size, gs[i]))) by {
        assert(fgroup_ok(m0, bv, size, gs[i]));
        if i < k {
            let ei = gep(gs[i]) as u64;
            assert(gep(gs[i]) < gep(gs[k]));
            assert(ei != e);
            if mb.dom().contains(ei) { assert(ma[ei] == mb[ei]); }
            assert(ma.dom().contains(ei) <==> mb.dom().contains(ei));
        } else {
            let w = esv_sub(eq_at(m0, e), grp_d(bv, size, gs[k]));
            assert(esv_eq(v, w));
        }
    }
    assert forall|x: u64| !gs_has_epoch(gs, k + 1, x) implies (#[trigger] ma.dom().contains(x) <==> m0.dom().contains(x)) && (m0.dom().contains(x) ==> ma[x] == m0[x]) by {
        assert(x != e) by { if x == e { assert(0 <= k < k + 1 && gep(gs[k]) == x); } }
        assert(!gs_has_epoch(gs, k, x)) by { if gs_has_epoch(gs, k, x) { let i = choose|i: int| 0 <= i < k && gep(#[trigger] gs[i]) == x; assert(0 <= i < k + 1 && gep(gs[i]) == x); } }
        if m0.dom().contains(x) { assert(mb[x] == m0[x]); assert(ma[x] == mb[x]); }
    }
    if forall|i: int| 0 <= i < k + 1 ==> zero_if_empty(esv_sub(eq_at(m0, gep(#[trigger] gs[i]) as u64), grp_d(bv, size, gs[i]))) {
        assert(zero_if_empty(esv_sub(eq_at(m0, gep(gs[k]) as u64), grp_d(bv, size, gs[k]))));
        assert(esv_eq(v, esv_sub(eq_at(m0, e), grp_d(bv, size, gs[k]))));
        lemma_total_sub(mb, ma, e, d);
        assert forall|i: int| 0 <= i < k implies zero_if_empty(esv_sub(eq_at(m0, gep(#[trigger] gs[i]) as u64), grp_d(bv, size, gs[i]))) by { }
    }
    // the numbers of group k are new: the sums add up
    let hk = hits(gs[k]);
    lemma_fset(gs, k);
    assert(fset(gs, k).disjoint(hk.to_set())) by {
        assert forall|u: u64| fset(gs, k).contains(u) && hk.to_set().contains(u) implies false by {
            let i = choose|i: int| 0 <= i < k && hits(#[trigger] gs[i]).contains(u);
            assert(hits(gs[i]).contains(u) && i != k);
            assert(!hits(gs[k]).contains(u));
        }
    }
    lemma_ssum_union(bv, fset(gs, k), hk.to_set(), size);
    assert(hk.no_duplicates()) by { assert forall|i: int, j: int| 0 <= i < hk.len() && 0 <= j < hk.len() && i != j implies hk[i] != hk[j] by { if i < j { assert(hk[i] < hk[j]); } else { assert(hk[j] < hk[i]); } } }
    lemma_seq_ssum(bv, hk, size);
}
/// the state of the loop of remove_active_sectors after k groups
pub open spec fn ras_inv(m0: EMap, m: EMap, bv: VNum, size: u64, gs: FGroups, k: int, tp: PowerPair, tpl: int, tfee: int, ns: Seq<u64>) -> bool {
    let t = ssum(bv, fset(gs, k), size);
    &&& q_removed(m0, m, bv, size, gs, k)
    &&& tp.raw@ == t.active_raw && tp.qa@ == t.active_qa && tpl == t.pledge && tfee == t.fee
    &&& ns.to_set() =~= fset(gs, k)
}
pub proof fn lemma_ras_step(m0: EMap, mb: EMap, ma: EMap, bv: VNum, size: u64, gs: FGroups, k: int,
    tp0: PowerPair, tpl0: int, tfee0: int, ns0: Seq<u64>, tp: PowerPair, tpl: int, tfee: int, ns: Seq<u64>, bits: Set<u64>)
    requires
        fse_post(m0, bv, size, gs), vn_wf(bv), 0 <= k < gs.len(), ras_inv(m0, mb, bv, size, gs, k, tp0, tpl0, tfee0, ns0),
        ns == ns0 + hits(gs[k]), bits == hits(gs[k]).to_set(),
        tp.raw@ == tp0.raw@ + gs[k].sector_epoch_set.power.raw@, tp.qa@ == tp0.qa@ + gs[k].sector_epoch_set.power.qa@,
        tpl == tpl0 + gs[k].sector_epoch_set.pledge@, tfee == tfee0 + gs[k].sector_epoch_set.daily_fee@,
        // the entry at the group's epoch lost: the group's numbers as on-time sectors, its power as ACTIVE power, its pledge and fee; no early sectors, no faulty power
        exists|d: EsV| esv_eq(d, EsV { on_time: bits, early: Set::empty(), pledge: gs[k].sector_epoch_set.pledge@, active_raw: gs[k].sector_epoch_set.power.raw@,
                active_qa: gs[k].sector_epoch_set.power.qa@, faulty_raw: 0, faulty_qa: 0, fee: gs[k].sector_epoch_set.daily_fee@ })
            && eq_upd_or_del(mb, ma, gep(gs[k]) as u64, #[trigger] esv_sub(eq_at(mb, gep(gs[k]) as u64), d)),
    ensures ras_inv(m0, ma, bv, size, gs, k + 1, tp, tpl, tfee, ns),
{
    let g = gs[k];
    let d = choose|d: EsV| esv_eq(d, EsV { on_time: bits, early: Set::empty(), pledge: g.sector_epoch_set.pledge@, active_raw: g.sector_epoch_set.power.raw@,
                active_qa: g.sector_epoch_set.power.qa@, faulty_raw: 0, faulty_qa: 0, fee: g.sector_epoch_set.daily_fee@ })
            && eq_upd_or_del(mb, ma, gep(g) as u64, #[trigger] esv_sub(eq_at(mb, gep(g) as u64), d));
    assert(fgroup_ok(m0, bv, size, g));
    let mem = vn_mem(bv, hits(g));
    assert(nums(mem) =~= hits(g)) by { assert forall|i: int| 0 <= i < hits(g).len() implies nums(mem)[i] == hits(g)[i] by { assert(hits(g).contains(hits(g)[i])); } }
    assert(esv_eq(d, grp_d(bv, size, g)));
    lemma_q_removed_step(m0, mb, ma, bv, size, gs, k, d);
    // totals
    let hk = hits(g);
    lemma_fset(gs, k);
    assert(fset(gs, k).disjoint(hk.to_set())) by {
        assert forall|u: u64| fset(gs, k).contains(u) && hk.to_set().contains(u) implies false by {
            let i = choose|i: int| 0 <= i < k && hits(#[trigger] gs[i]).contains(u);
            assert(hits(gs[i]).contains(u) && i != k);
            assert(!hits(gs[k]).contains(u));
        }
    }
    lemma_ssum_union(bv, fset(gs, k), hk.to_set(), size);
    assert(hk.no_duplicates()) by { assert forall|i: int, j: int| 0 <= i < hk.len() && 0 <= j < hk.len() && i != j implies hk[i] != hk[j] by { if i < j { assert(hk[i] < hk[j]); } else { assert(hk[j] < hk[i]); } } }
    lemma_seq_ssum(bv, hk, size);
    assert(ns.to_set() =~= fset(gs, k + 1)) by {
        assert forall|u: u64| ns.to_set().contains(u) <==> fset(gs, k + 1).contains(u) by {
            if ns.contains(u) { let i = choose|i: int| 0 <= i < ns.len() && ns[i] == u; if i < ns0.len() { assert(ns0[i] == u); assert(ns0.contains(u)); } else { assert(hk[i - ns0.len()] == u); assert(hk.contains(u)); } }
            if ns0.contains(u) { let i = choose|i: int| 0 <= i < ns0.len() && ns0[i] == u; assert(ns[i] == u); }
            if hk.contains(u) { let i = choose|i: int| 0 <= i < hk.len() && hk[i] == u; assert(ns[ns0.len() + i] == u); }
        }
    }
}
/// what remove_active_sectors promises (bv = the requested sectors by number)
pub open spec fn ras_post(m0: EMap, m1: EMap, bv: VNum, size: u64, ret: EsV) -> bool {
    // returned: exactly the requested numbers, and the sums of the power, pledge and daily fee of the requested sectors
    &&& ret.on_time =~= bv.dom() && amt_eq(ret, ssum(bv, bv.dom(), size))
    // the sectors were taken out of the entries in which they were scheduled on time (groups: one per such entry), emptied entries are deleted, every other
    // entry is untouched; conservation: total before = total after + what was returned
    &&& exists|gs: FGroups| #[trigger] fse_post(m0, bv, size, gs) && q_removed(m0, m1, bv, size, gs, gs.len() as int)
}
pub proof fn lemma_ras_done(m0: EMap, m1: EMap, bv: VNum, size: u64, gs: FGroups, tp: PowerPair, tpl: int, tfee: int, ns: Seq<u64>, u: Set<u64>)
    requires fse_post(m0, bv, size, gs), vn_wf(bv), ras_inv(m0, m1, bv, size, gs, gs.len() as int, tp, tpl, tfee, ns), u == ns.to_set(),
    ensures ras_post(m0, m1, bv, size, EsV { on_time: u, early: Set::empty(), pledge: tpl, active_raw: tp.raw@, active_qa: tp.qa@, faulty_raw: 0, faulty_qa: 0, fee: tfee }),
{
    lemma_fset(gs, gs.len() as int);
    assert(fset(gs, gs.len() as int) =~= bv.dom()) by {
        assert forall|x: u64| fset(gs, gs.len() as int).contains(x) <==> bv.dom().contains(x) by {
            if fset(gs, gs.len() as int).contains(x) { let i = choose|i: int| 0 <= i < gs.len() && hits(#[trigger] gs[i]).contains(x); assert(fgroup_ok(m0, bv, size, gs[i])); }
            if bv.dom().contains(x) { assert(fse_found(gs, x)); }
        }
    }
    // the sector sets of ssum are not part of amt_eq; faulty power of ssum is zero
    lemma_ssum_nofault(bv, bv.dom(), size);
}
pub proof fn lemma_ssum_nofault(bv: VNum, us: Set<u64>, size: u64)
    ensures ssum(bv, us, size).faulty_raw == 0 && ssum(bv, us, size).faulty_qa == 0,
    decreases us.len()
{
    if us.len() != 0 { lemma_ssum_nofault(bv, us.remove(us.choose()), size); }
}

//@ fn actors/miner/src/expiration_queue.rs ExpirationQueue::remove_active_sectors sub0="group . sector_epoch_set . sectors . iter () . copied ()=>vx_copied(&group.sector_epoch_set.sectors)" sub1="removed_sector_numbers . extend (& group . sector_epoch_set . sectors)=>vx_extend_u64(&mut removed_sector_numbers, &group.sector_epoch_set.sectors)" sub2="BitField :: try_from_bits (removed_sector_numbers) ?=>{ let ghost __vx_ns = removed_sector_numbers@; let __vx_b = BitField::try_from_bits(removed_sector_numbers)?; proof { lemma_ras_done(old(self).amt.view(), self.amt.view(), __vx_bv, sector_size.v, __vx_gs, removed_power, removed_pledge@, removed_daily_fee@, __vx_ns, __vx_b@); if nums(svs(sectors@)).no_duplicates() { lemma_byn_total(svs(sectors@), sector_size.v); lemma_byn_dom(svs(sectors@)); } } __vx_b }"
    requires
        q_ok(old(self).quant), eq_keys_ok(old(self).amt.view()), eq_keys_quant(old(self).amt.view(), old(self).quant),
        forall|j: int| 0 <= j < sectors@.len() ==> small((#[trigger] sectors@[j]).expiration as int),
    ensures
        final(self).quant == old(self).quant,
        r.is_ok() ==> ras_post(old(self).amt.view(), final(self).amt.view(), byn(svs(sectors@), sectors@.len() as int), sector_size.v, ret_esv(r->Ok_0)),
        // for sectors with pairwise distinct numbers: "the returned sector-number set and power are exactly those of the sectors passed in"
        r.is_ok() && nums(svs(sectors@)).no_duplicates() ==> esv_eq(ret_esv(r->Ok_0), sec_esv(svs(sectors@), sector_size.v)),
//@ after "let groups ="
        let ghost __vx_gs = groups@;
        let ghost __vx_bv = byn(svs(sectors@), sectors@.len() as int);
        proof {
            lemma_byn(svs(sectors@), sectors@.len() as int);
            let t0 = eq_total(self.amt.view());
            assert(amt_eq(t0, esv_add(t0, esv_zero())));
        }
//@ loop 0 iter=it
            invariant
                it.seq() == __vx_gs, self.quant == old(self).quant, q_ok(self.quant), eq_keys_quant(old(self).amt.view(), self.quant), vn_wf(__vx_bv),
                fse_post(old(self).amt.view(), __vx_bv, sector_size.v, __vx_gs),
                ras_inv(old(self).amt.view(), self.amt.view(), __vx_bv, sector_size.v, __vx_gs, it.index@ as int, removed_power, removed_pledge@, removed_daily_fee@, removed_sector_numbers@),
//@ loopstart 0
            let ghost __vx_mb = self.amt.view();
            let ghost (__vx_tp0, __vx_tpl0, __vx_tfee0, __vx_ns0) = (removed_power, removed_pledge@, removed_daily_fee@, removed_sector_numbers@);
            proof {
                assert(fgroup_ok(old(self).amt.view(), __vx_bv, sector_size.v, __vx_gs[it.index@ as int]));
                let e = gep(__vx_gs[it.index@ as int]) as u64;
                assert(old(self).amt.view().dom().contains(e));
                assert(quantize_up_spec(self.quant, e as int) == e && ep_ok(e as int));
            }
//@ loopend 0
            proof {
                lemma_ras_step(old(self).amt.view(), __vx_mb, self.amt.view(), __vx_bv, sector_size.v, __vx_gs, it.index@ as int,
                    __vx_tp0, __vx_tpl0, __vx_tfee0, __vx_ns0, removed_power, removed_pledge@, removed_daily_fee@, removed_sector_numbers@, sectors_bitfield@);
            }
//@ end

// ======================= replace_sectors =======================
//@ fn actors/miner/src/expiration_queue.rs ExpirationQueue::replace_sectors
    requires
        q_ok(old(self).quant), eq_keys_ok(old(self).amt.view()), eq_keys_quant(old(self).amt.view(), old(self).quant),
        forall|j: int| 0 <= j < old_sectors@.len() ==> small((#[trigger] old_sectors@[j]).expiration as int),
        forall|j: int| 0 <= j < new_sectors@.len() ==> small((#[trigger] new_sectors@[j]).expiration as int),
    ensures
        final(self).quant == old(self).quant,
        r.is_ok() ==> ({
            let (old_nums, new_nums, power_delta, pledge_delta, fee_delta) = r->Ok_0;
            let ov = byn(svs(old_sectors@), old_sectors@.len() as int);
            let o = ssum(ov, ov.dom(), sector_size.v);
            let n = sec_esv(svs(new_sectors@), sector_size.v);
            // the two sector-number sets are exactly those of the sectors passed in; the deltas are new minus old, sums of power_for_sector / pledge / daily fee
            &&& old_nums@ =~= ov.dom() && new_nums@ =~= n.on_time
            &&& power_delta.raw@ == n.active_raw - o.active_raw && power_delta.qa@ == n.active_qa - o.active_qa
            &&& pledge_delta@ == n.pledge - o.pledge && fee_delta@ == n.fee - o.fee
            // the queue: first the old sectors leave the entries where they were scheduled on time, then the new ones land at quantize_up(their expiration)
            &&& exists|mid: EMap| #![trigger eq_total(mid)] (exists|ret: EsV| #[trigger] ras_post(old(self).amt.view(), mid, ov, sector_size.v, ret))
                    && q_added_post(mid, final(self).amt.view(), svs(new_sectors@), old(self).quant, sector_size.v)
        }),
        // for old sectors with pairwise distinct numbers the old sums are those of the list passed in
        r.is_ok() && nums(svs(old_sectors@)).no_duplicates() ==> ({
            let (o, n) = (sec_esv(svs(old_sectors@), sector_size.v), sec_esv(svs(new_sectors@), sector_size.v));
            r->Ok_0.2.raw@ == n.active_raw - o.active_raw && r->Ok_0.2.qa@ == n.active_qa - o.active_qa && r->Ok_0.3@ == n.pledge - o.pledge && r->Ok_0.4@ == n.fee - o.fee
        }),
//@ before "new_sector_numbers , new_power"
        let ghost __vx_mid = self.amt.view();
        proof {
            assert(ras_post(old(self).amt.view(), __vx_mid, byn(svs(old_sectors@), old_sectors@.len() as int), sector_size.v, ret_esv((old_sector_numbers, old_power, old_pledge, old_daily_fee))));
        }
//@ end

// ======================= reschedule_as_faults =======================
/// the new content of the entry of group g when its sectors are declared faulty with fault expiration (quantised) `qnew`: an entry at or before `qnew` keeps the
/// sectors (they expire on time anyway) but their power turns from active to faulty; a later entry loses them (sectors, pledge, active power, fee) — they are
/// re-added at `qnew` as early, faulty sectors
pub open spec fn raf_v(m0: EMap, bv: VNum, size: u64, g: SectorExpirationSet, qnew: int) -> EsV {
    let at = eq_at(m0, gep(g) as u64);
    let d = grp_d(bv, size, g);
    if gep(g) <= qnew {
        EsV { active_raw: at.active_raw - d.active_raw, active_qa: at.active_qa - d.active_qa, faulty_raw: at.faulty_raw + d.active_raw, faulty_qa: at.faulty_qa + d.active_qa, ..at }
    } else {
        EsV { on_time: at.on_time.difference(d.on_time), pledge: at.pledge - d.pledge, active_raw: at.active_raw - d.active_raw, active_qa: at.active_qa - d.active_qa, fee: at.fee - d.fee, ..at }
    }
}
/// the numbers of the groups (among the first k) that lie after `qnew`: the sectors that are rescheduled
pub open spec fn rset(gs: FGroups, k: int, qnew: int) -> Set<u64>
    decreases k
{ if k <= 0 { Set::empty() } else if gep(gs[k - 1]) > qnew { rset(gs, k - 1, qnew).union(hits(gs[k - 1]).to_set()) } else { rset(gs, k - 1, qnew) } }
/// the queue after the first k groups were handled (before the rescheduled sectors are re-added)
pub open spec fn raf_q(m0: EMap, m: EMap, bv: VNum, size: u64, gs: FGroups, k: int, qnew: int) -> bool {
    &&& forall|i: int| 0 <= i < k ==> eq_entry(m, gep(#[trigger] gs[i]) as u64, raf_v(m0, bv, size, gs[i], qnew))
    &&& forall|e: u64| !gs_has_epoch(gs, k, e) ==> (#[trigger] m.dom().contains(e) <==> m0.dom().contains(e))
    &&& forall|e: u64| !gs_has_epoch(gs, k, e) && m0.dom().contains(e) ==> #[trigger] m[e] == m0[e]
}
pub open spec fn raf_noleak(m0: EMap, bv: VNum, size: u64, gs: FGroups, k: int, qnew: int) -> bool {
    forall|i: int| 0 <= i < k ==> zero_if_empty(raf_v(m0, bv, size, #[trigger] gs[i], qnew))
}
/// the loop of reschedule_as_faults after k groups (ep: expiring power, rp / rfee / rpl: power, fee and pledge of the rescheduled sectors, st: their numbers)
pub open spec fn raf_inv(m0: EMap, m: EMap, bv: VNum, size: u64, gs: FGroups, k: int, qnew: int, ep: PowerPair, rp: PowerPair, rfee: int, rpl: int, st: Seq<u64>) -> bool {
    let (t0, t, f) = (eq_total(m0), eq_total(m), ssum(bv, fset(gs, k), size));
    &&& raf_q(m0, m, bv, size, gs, k, qnew)
    // all the power of the sectors found so far is accounted: expiring + rescheduled
    &&& ep.raw@ + rp.raw@ == f.active_raw && ep.qa@ + rp.qa@ == f.active_qa
    &&& st.to_set() =~= rset(gs, k, qnew)
    // conservation (as long as no entry was deleted with amounts left in it): the power left the active total; the expiring part is already in the faulty total;
    // fee and pledge of the rescheduled sectors are out
    &&& raf_noleak(m0, bv, size, gs, k, qnew) ==> t.active_raw == t0.active_raw - f.active_raw && t.active_qa == t0.active_qa - f.active_qa
            && t.faulty_raw == t0.faulty_raw + ep.raw@ && t.faulty_qa == t0.faulty_qa + ep.qa@ && t.fee == t0.fee - rfee && t.pledge == t0.pledge - rpl
}
/// replacing the content of the entry at e by v changes the total of the queue by exactly (v - old content), amount by amount
pub proof fn lemma_total_repl(mb: EMap, ma: EMap, e: u64, v: EsV)
    requires mb.dom().contains(e), eq_upd_or_del(mb, ma, e, v), zero_if_empty(v),
    ensures amt_eq(esv_add(eq_total(ma), eq_at(mb, e)), esv_add(eq_total(mb), v)),
{
    let (qa, qb) = (qmap(ma), qmap(mb));
    lemma_qsum_remove(qb, e);
    if v.on_time =~= Set::<u64>::empty() && v.early =~= Set::<u64>::empty() {
        assert(qa =~= qb.remove(e));
    } else {
        assert(qa.dom().contains(e));
        lemma_qsum_remove(qa, e);
        assert(qa.remove(e) =~= qb.remove(e)) by {
            assert forall|k: u64| qa.remove(e).dom().contains(k) implies #[trigger] qa.remove(e)[k] == qb.remove(e)[k] by { assert(ma[k] == mb[k]); }
        }
    }
}
/// the numbers of group k are new: the sum over the numbers found grows by the group's aggregate
pub proof fn lemma_fset_step(m0: EMap, bv: VNum, size: u64, gs: FGroups, k: int)
    requires fse_post(m0, bv, size, gs), 0 <= k < gs.len(),
    ensures esv_eq(ssum(bv, fset(gs, k + 1), size), esv_add(ssum(bv, fset(gs, k), size), grp_d(bv, size, gs[k]))), fset(gs, k).disjoint(hits(gs[k]).to_set()),
{
    let hk = hits(gs[k]);
    assert(fgroup_ok(m0, bv, size, gs[k]));
    lemma_fset(gs, k);
    assert(fset(gs, k).disjoint(hk.to_set())) by {
        assert forall|u: u64| fset(gs, k).contains(u) && hk.to_set().contains(u) implies false by {
            let i = choose|i: int| 0 <= i < k && hits(#[trigger] gs[i]).contains(u);
            assert(hits(gs[i]).contains(u) && i != k);
            assert(!hits(gs[k]).contains(u));
        }
    }
    lemma_ssum_union(bv, fset(gs, k), hk.to_set(), size);
    assert(hk.no_duplicates()) by { assert forall|i: int, j: int| 0 <= i < hk.len() && 0 <= j < hk.len() && i != j implies hk[i] != hk[j] by { if i < j { assert(hk[i] < hk[j]); } else { assert(hk[j] < hk[i]); } } }
    lemma_seq_ssum(bv, hk, size);
}
pub proof fn lemma_raf_step(m0: EMap, mb: EMap, ma: EMap, bv: VNum, size: u64, gs: FGroups, k: int, qnew: int, v: EsV,
    ep0: PowerPair, rp0: PowerPair, rfee0: int, rpl0: int, st0: Seq<u64>, ep: PowerPair, rp: PowerPair, rfee: int, rpl: int, st: Seq<u64>)
    requires
        fse_post(m0, bv, size, gs), vn_wf(bv), 0 <= k < gs.len(), raf_inv(m0, mb, bv, size, gs, k, qnew, ep0, rp0, rfee0, rpl0, st0),
        esv_eq(v, raf_v(m0, bv, size, gs[k], qnew)), eq_upd_or_del(mb, ma, gep(gs[k]) as u64, v),
        gep(gs[k]) <= qnew ==> ep.raw@ == ep0.raw@ + gs[k].sector_epoch_set.power.raw@ && ep.qa@ == ep0.qa@ + gs[k].sector_epoch_set.power.qa@ && rp.raw@ == rp0.raw@ && rp.qa@ == rp0.qa@
            && rfee == rfee0 && rpl == rpl0 && st == st0,
        gep(gs[k]) > qnew ==> rp.raw@ == rp0.raw@ + gs[k].sector_epoch_set.power.raw@ && rp.qa@ == rp0.qa@ + gs[k].sector_epoch_set.power.qa@ && ep.raw@ == ep0.raw@ && ep.qa@ == ep0.qa@
            && rfee == rfee0 + gs[k].sector_epoch_set.daily_fee@ && rpl == rpl0 + gs[k].sector_epoch_set.pledge@ && st == st0 + hits(gs[k]),
    ensures raf_inv(m0, ma, bv, size, gs, k + 1, qnew, ep, rp, rfee, rpl, st),
{
    let g = gs[k];
    let e = gep(g) as u64;
    assert(fgroup_ok(m0, bv, size, g));
    assert(!gs_has_epoch(gs, k, e)) by { if gs_has_epoch(gs, k, e) { let i = choose|i: int| 0 <= i < k && gep(#[trigger] gs[i]) == e; assert(gep(gs[i]) < gep(gs[k])); } }
    assert(mb.dom().contains(e) && mb[e] == m0[e]);
    assert forall|i: int| 0 <= i < k + 1 implies eq_entry(ma, gep(#[trigger] gs[i]) as u64, raf_v(m0, bv, size, gs[i], qnew)) by {
        assert(fgroup_ok(m0, bv, size, gs[i]));
        if i < k {
            let ei = gep(gs[i]) as u64;
            assert(gep(gs[i]) < gep(gs[k]));
            assert(ei != e);
            if mb.dom().contains(ei) { assert(ma[ei] == mb[ei]); }
            assert(ma.dom().contains(ei) <==> mb.dom().contains(ei));
        }
    }
    assert forall|x: u64| !gs_has_epoch(gs, k + 1, x) implies (#[trigger] ma.dom().contains(x) <==> m0.dom().contains(x)) && (m0.dom().contains(x) ==> ma[x] == m0[x]) by {
        assert(x != e) by { if x == e { assert(0 <= k < k + 1 && gep(gs[k]) == x); } }
        assert(!gs_has_epoch(gs, k, x)) by { if gs_has_epoch(gs, k, x) { let i = choose|i: int| 0 <= i < k && gep(#[trigger] gs[i]) == x; assert(0 <= i < k + 1 && gep(gs[i]) == x); } }
        if m0.dom().contains(x) { assert(mb[x] == m0[x]); assert(ma[x] == mb[x]); }
    }
    lemma_fset_step(m0, bv, size, gs, k);
    let mem = vn_mem(bv, hits(g));
    assert(nums(mem) =~= hits(g)) by { assert forall|i: int| 0 <= i < hits(g).len() implies nums(mem)[i] == hits(g)[i] by { assert(hits(g).contains(hits(g)[i])); } }
    if gep(g) > qnew {
        assert(st.to_set() =~= rset(gs, k + 1, qnew)) by {
            let hk = hits(g);
            assert forall|u: u64| st.to_set().contains(u) <==> rset(gs, k + 1, qnew).contains(u) by {
                if st.contains(u) { let i = choose|i: int| 0 <= i < st.len() && st[i] == u; if i < st0.len() { assert(st0[i] == u); assert(st0.contains(u)); } else { assert(hk[i - st0.len()] == u); assert(hk.contains(u)); } }
                if st0.contains(u) { let i = choose|i: int| 0 <= i < st0.len() && st0[i] == u; assert(st[i] == u); }
                if hk.contains(u) { let i = choose|i: int| 0 <= i < hk.len() && hk[i] == u; assert(st[st0.len() + i] == u); }
            }
        }
    }
    if raf_noleak(m0, bv, size, gs, k + 1, qnew) {
        assert(zero_if_empty(raf_v(m0, bv, size, gs[k], qnew)));
        assert(raf_noleak(m0, bv, size, gs, k, qnew)) by { assert forall|i: int| 0 <= i < k implies zero_if_empty(raf_v(m0, bv, size, #[trigger] gs[i], qnew)) by { } }
        lemma_total_repl(mb, ma, e, v);
    }
}
/// what reschedule_as_faults promises (bv = the declared-faulty sectors by number, qnew = quantize_up(new_expiration))
pub open spec fn raf_post(m0: EMap, m1: EMap, bv: VNum, size: u64, qnew: int, ret: PowerPair) -> bool {
    let (t0, t1) = (eq_total(m0), eq_total(m1));
    // "the returned ... power [is] exactly [that] of the sectors passed in"
    &&& ret.raw@ == ssum(bv, bv.dom(), size).active_raw && ret.qa@ == ssum(bv, bv.dom(), size).active_qa
    // where the sectors were scheduled on time (groups gs): entries up to qnew keep them and turn their power faulty, later entries lose them (state `mid`);
    // then the sectors taken out are re-added at qnew as early sectors with their power as faulty power and their fee (their pledge is dropped)
    &&& exists|gs: FGroups, mid: EMap| #![trigger raf_q(m0, mid, bv, size, gs, gs.len() as int, qnew)] fse_post(m0, bv, size, gs) && raf_q(m0, mid, bv, size, gs, gs.len() as int, qnew)
            && (rset(gs, gs.len() as int, qnew) =~= Set::<u64>::empty() ==> m1 == mid)
            && (!(rset(gs, gs.len() as int, qnew) =~= Set::<u64>::empty()) ==> qnew >= 0 && exists|x: EsV| x.on_time =~= Set::<u64>::empty() && x.early =~= rset(gs, gs.len() as int, qnew)
                    && x.pledge == 0 && x.active_raw == 0 && x.active_qa == 0 && #[trigger] eq_upd(mid, m1, qnew as u64, esv_add(eq_at(mid, qnew as u64), x)))
            // conservation: "rescheduling moves ... power between active and faulty, it never creates or loses any" — the power of the sectors leaves the
            // active total and enters the faulty total; the fee total is unchanged (unless an entry was deleted with amounts left in it)
            && (raf_noleak(m0, bv, size, gs, gs.len() as int, qnew) ==> t1.active_raw == t0.active_raw - ret.raw@ && t1.active_qa == t0.active_qa - ret.qa@
                    && t1.faulty_raw == t0.faulty_raw + ret.raw@ && t1.faulty_qa == t0.faulty_qa + ret.qa@ && t1.fee == t0.fee)
}

pub proof fn lemma_raf_done(m0: EMap, mid: EMap, m1: EMap, bv: VNum, size: u64, gs: FGroups, qnew: int, ep: PowerPair, rp: PowerPair, rfee: int, rpl: int, st: Seq<u64>, ret: PowerPair, x: EsV)
    requires
        fse_post(m0, bv, size, gs), vn_wf(bv), raf_inv(m0, mid, bv, size, gs, gs.len() as int, qnew, ep, rp, rfee, rpl, st),
        ret.raw@ == rp.raw@ + ep.raw@, ret.qa@ == rp.qa@ + ep.qa@,
        st.len() == 0 ==> m1 == mid,
        st.len() > 0 ==> qnew >= 0 && x.on_time =~= Set::<u64>::empty() && x.early =~= st.to_set() && x.pledge == 0 && x.active_raw == 0 && x.active_qa == 0
            && x.faulty_raw == rp.raw@ && x.faulty_qa == rp.qa@ && x.fee == rfee && eq_upd(mid, m1, qnew as u64, esv_add(eq_at(mid, qnew as u64), x)),
        // nothing rescheduled: nothing accumulated (the accumulators start at zero and only grow with rescheduled groups)
        rset(gs, gs.len() as int, qnew) =~= Set::<u64>::empty() ==> rp.raw@ == 0 && rp.qa@ == 0 && rfee == 0,
    ensures raf_post(m0, m1, bv, size, qnew, ret),
{
    let n = gs.len() as int;
    lemma_fset(gs, n);
    assert(fset(gs, n) =~= bv.dom()) by {
        assert forall|u: u64| fset(gs, n).contains(u) <==> bv.dom().contains(u) by {
            if fset(gs, n).contains(u) { let i = choose|i: int| 0 <= i < gs.len() && hits(#[trigger] gs[i]).contains(u); assert(fgroup_ok(m0, bv, size, gs[i])); }
            if bv.dom().contains(u) { assert(fse_found(gs, u)); }
        }
    }
    if st.len() > 0 {
        assert(st.to_set().contains(st[0]));
        lemma_total_add(mid, m1, qnew as u64, x);
    } else {
        assert(st.to_set() =~= Set::<u64>::empty());
    }
    assert(raf_q(m0, mid, bv, size, gs, n, qnew));
}

//@ fn actors/miner/src/expiration_queue.rs ExpirationQueue::reschedule_as_faults sub0="group . sector_epoch_set . sectors . iter () . copied ()=>vx_copied(&group.sector_epoch_set.sectors)" sub1=":: core :: ops :: Add :: add (& rescheduled_power , & expiring_power)=>{ let __vx_r = ::core::ops::Add::add(&rescheduled_power, &expiring_power); proof { let x = EsV { on_time: Set::empty(), early: __vx_st.to_set(), pledge: 0, active_raw: 0, active_qa: 0, faulty_raw: rescheduled_power.raw@, faulty_qa: rescheduled_power.qa@, fee: rescheduled_daily_fee@ }; if __vx_st.len() > 0 { let e = quantize_up_spec(self.quant, new_expiration as int) as u64; assert(eq_upd(__vx_mid, self.amt.view(), e, esv_add(eq_at(__vx_mid, e), x))); } lemma_raf_done(old(self).amt.view(), __vx_mid, self.amt.view(), __vx_bv, sector_size.v, __vx_gs, new_quantized_expiration as int, expiring_power, rescheduled_power, rescheduled_daily_fee@, __vx_rpl, __vx_st, __vx_r, x); if nums(svs(sectors@)).no_duplicates() { lemma_byn_total(svs(sectors@), sector_size.v); } } __vx_r }"
    requires
        q_ok(old(self).quant), eq_keys_ok(old(self).amt.view()), ep_ok(new_expiration as int),
        forall|j: int| 0 <= j < sectors@.len() ==> small((#[trigger] sectors@[j]).expiration as int),
    ensures
        final(self).quant == old(self).quant,
        r.is_ok() ==> raf_post(old(self).amt.view(), final(self).amt.view(), byn(svs(sectors@), sectors@.len() as int), sector_size.v,
            quantize_up_spec(old(self).quant, new_expiration as int), r->Ok_0),
        // for sectors with pairwise distinct numbers: the power returned is the sum of power_for_sector over the sectors passed in
        r.is_ok() && nums(svs(sectors@)).no_duplicates() ==> r->Ok_0.raw@ == sector_size.v * sectors@.len() && r->Ok_0.qa@ == sum_qa(sector_size.v, svs(sectors@)),
//@ after "let groups ="
        let ghost __vx_gs = groups@;
        let ghost __vx_bv = byn(svs(sectors@), sectors@.len() as int);
        let ghost mut __vx_rpl: int = 0;
        proof { lemma_byn(svs(sectors@), sectors@.len() as int); }
//@ loop 0 iter=it
            invariant
                it.seq() == __vx_gs, self.quant == old(self).quant, q_ok(self.quant), vn_wf(__vx_bv), new_quantized_expiration == quantize_up_spec(self.quant, new_expiration as int),
                fse_post(old(self).amt.view(), __vx_bv, sector_size.v, __vx_gs),
                raf_inv(old(self).amt.view(), self.amt.view(), __vx_bv, sector_size.v, __vx_gs, it.index@ as int, new_quantized_expiration as int,
                    expiring_power, rescheduled_power, rescheduled_daily_fee@, __vx_rpl, sectors_total@),
                rset(__vx_gs, it.index@ as int, new_quantized_expiration as int) =~= Set::<u64>::empty() ==> rescheduled_power.raw@ == 0 && rescheduled_power.qa@ == 0 && rescheduled_daily_fee@ == 0,
//@ loopstart 0
            let ghost __vx_mb = self.amt.view();
            let ghost (__vx_ep0, __vx_rp0, __vx_rfee0, __vx_rpl0, __vx_st0) = (expiring_power, rescheduled_power, rescheduled_daily_fee@, __vx_rpl, sectors_total@);
            proof { assert(fgroup_ok(old(self).amt.view(), __vx_bv, sector_size.v, __vx_gs[it.index@ as int])); }
//@ loopend 0
            proof {
                let k = it.index@ as int;
                let g0 = __vx_gs[k];
                if gep(g0) > new_quantized_expiration { __vx_rpl = __vx_rpl + g0.sector_epoch_set.pledge@; }
                let mem = vn_mem(__vx_bv, hits(g0));
                assert(nums(mem) =~= hits(g0)) by { assert forall|i: int| 0 <= i < hits(g0).len() implies nums(mem)[i] == hits(g0)[i] by { assert(hits(g0).contains(hits(g0)[i])); } }
                assert(esv_eq(esv(group.expiration_set), raf_v(old(self).amt.view(), __vx_bv, sector_size.v, g0, new_quantized_expiration as int)));
                if gep(g0) > new_quantized_expiration { assert(sectors_total@ =~= __vx_st0 + hits(g0)); }
                lemma_raf_step(old(self).amt.view(), __vx_mb, self.amt.view(), __vx_bv, sector_size.v, __vx_gs, k, new_quantized_expiration as int, esv(group.expiration_set),
                    __vx_ep0, __vx_rp0, __vx_rfee0, __vx_rpl0, __vx_st0, expiring_power, rescheduled_power, rescheduled_daily_fee@, __vx_rpl, sectors_total@);
                if gep(g0) > new_quantized_expiration { assert(hits(g0).to_set().contains(hits(g0)[0])); }
            }
//@ afterloop 0
        let ghost __vx_mid = self.amt.view();
        let ghost __vx_st = sectors_total@;
//@ end

// ======================= reschedule_expirations =======================
//@ fn actors/miner/src/expiration_queue.rs ExpirationQueue::reschedule_expirations
    requires
        q_ok(old(self).quant), eq_keys_ok(old(self).amt.view()), eq_keys_quant(old(self).amt.view(), old(self).quant), ep_ok(new_expiration as int),
        forall|j: int| 0 <= j < sectors@.len() ==> small((#[trigger] sectors@[j]).expiration as int),
    ensures
        final(self).quant == old(self).quant,
        r.is_ok() && sectors@.len() == 0 ==> final(self).amt.view() == old(self).amt.view(),
        // the sectors leave the entries where they were scheduled on time (state `mid`) and land, with exactly the power, pledge and fee taken out, at quantize_up(new_expiration)
        r.is_ok() && sectors@.len() > 0 ==> exists|mid: EMap, ret: EsV| #![trigger ras_post(old(self).amt.view(), mid, byn(svs(sectors@), sectors@.len() as int), sector_size.v, ret)]
            ras_post(old(self).amt.view(), mid, byn(svs(sectors@), sectors@.len() as int), sector_size.v, ret)
            && ret.early =~= Set::<u64>::empty() && ret.faulty_raw == 0 && ret.faulty_qa == 0 && quantize_up_spec(old(self).quant, new_expiration as int) >= 0
            && eq_upd(mid, final(self).amt.view(), quantize_up_spec(old(self).quant, new_expiration as int) as u64, esv_add(eq_at(mid, quantize_up_spec(old(self).quant, new_expiration as int) as u64), ret)),
//@ before "self . add"
        let ghost __vx_mid = self.amt.view();
        let ghost __vx_ret = ret_esv((sector_numbers, power, pledge, daily_fee));
//@ after "self . add"
        proof {
            let e = quantize_up_spec(self.quant, new_expiration as int) as u64;
            assert(eq_upd(__vx_mid, self.amt.view(), e, esv_add(eq_at(__vx_mid, e), __vx_ret)));
            assert(ras_post(old(self).amt.view(), __vx_mid, byn(svs(sectors@), sectors@.len() as int), sector_size.v, __vx_ret));
        }
//@ end

// ======================= reschedule_all_as_faults =======================
/// an entry whose sectors all become faulty: the active power moves to the faulty power; sectors, pledge and fee stay
pub open spec fn shift_v(v: EsV) -> EsV { EsV { active_raw: 0, active_qa: 0, faulty_raw: v.faulty_raw + v.active_raw, faulty_qa: v.faulty_qa + v.active_qa, ..v } }
/// what an entry AFTER the fault expiration contributes to the entry at the fault expiration: its on-time sectors as early sectors, all its power as faulty power, its fee
pub open spec fn late_x(v: EsV) -> EsV {
    EsV { on_time: Set::empty(), early: v.on_time, pledge: 0, active_raw: 0, active_qa: 0, faulty_raw: v.active_raw + v.faulty_raw, faulty_qa: v.active_qa + v.faulty_qa, fee: v.fee }
}
pub open spec fn is_late(k: u64, qf: ChainEpoch) -> bool { (k as ChainEpoch) > qf }
/// the sum of `late_x` over the entries (among the first j) that lie after the fault expiration
pub open spec fn late_sum(es: Seq<EEnt>, j: int, qf: ChainEpoch) -> EsV
    decreases j
{ if j <= 0 { esv_zero() } else if is_late(es[j - 1].0, qf) { esv_add(late_sum(es, j - 1, qf), late_x(esv(*es[j - 1].1))) } else { late_sum(es, j - 1, qf) } }
/// the accumulators of the first loop as one value
pub open spec fn raaf_acc(sectors: Set<u64>, power: PowerPair, fee: int) -> EsV {
    EsV { on_time: Set::empty(), early: sectors, pledge: 0, active_raw: 0, active_qa: 0, faulty_raw: power.raw@, faulty_qa: power.qa@, fee }
}
/// first loop after j entries: the due entries (a prefix, keys increase) are copied with their power turned faulty; the later ones are listed and summed
pub open spec fn raaf_a(es: Seq<EEnt>, j: int, qf: ChainEpoch, ms: Seq<(ChainEpoch, ExpirationSet)>, rk: Seq<u64>, acc: EsV) -> bool {
    &&& 0 <= j <= es.len() && ms.len() + rk.len() == j
    &&& forall|t: int| 0 <= t < j ==> (#[trigger] es[t]).0 <= 0x7fff_ffff_ffff_ffff
    &&& forall|t: int| #![trigger ms[t]] #![trigger es[t]] 0 <= t < ms.len() ==> ms[t].0 == es[t].0 && !is_late(es[t].0, qf) && esv(ms[t].1) == shift_v(esv(*es[t].1))
    &&& forall|t: int| ms.len() <= t < j ==> is_late((#[trigger] es[t]).0, qf) && rk[t - ms.len()] == es[t].0 && esv(*es[t].1).early =~= Set::<u64>::empty()
    &&& esv_eq(acc, late_sum(es, j, qf))
}
pub proof fn lemma_raaf_a_step(m: EMap, es: Seq<EEnt>, j: int, qf: ChainEpoch, ms0: Seq<(ChainEpoch, ExpirationSet)>, rk0: Seq<u64>, acc0: EsV, ms: Seq<(ChainEpoch, ExpirationSet)>, rk: Seq<u64>, acc: EsV)
    requires
        amt_entries(m, es), 0 <= j < es.len(), raaf_a(es, j, qf, ms0, rk0, acc0), es[j].0 <= 0x7fff_ffff_ffff_ffff,
        !is_late(es[j].0, qf) ==> rk == rk0 && acc == acc0 && ms == ms0.push(ms[ms0.len() as int]) && ms[ms0.len() as int].0 == es[j].0 && esv(ms[ms0.len() as int].1) == shift_v(esv(*es[j].1)),
        is_late(es[j].0, qf) ==> ms == ms0 && rk == rk0.push(es[j].0) && esv(*es[j].1).early =~= Set::<u64>::empty() && esv_eq(acc, esv_add(acc0, late_x(esv(*es[j].1)))),
    ensures raaf_a(es, j + 1, qf, ms, rk, acc),
{
    if !is_late(es[j].0, qf) {
        // keys increase: no earlier entry can be late
        assert(rk0.len() == 0) by { if rk0.len() > 0 { let t = ms0.len() as int; assert(is_late(es[t].0, qf)); assert(es[t].0 < es[j].0); } }
        assert forall|t: int| #![trigger ms[t]] #![trigger es[t]] 0 <= t < ms.len() implies ms[t].0 == es[t].0 && !is_late(es[t].0, qf) && esv(ms[t].1) == shift_v(esv(*es[t].1)) by { if t < ms0.len() { assert(ms[t] == ms0[t]); } }
    } else {
        assert forall|t: int| ms.len() <= t < j + 1 implies is_late((#[trigger] es[t]).0, qf) && rk[t - ms.len()] == es[t].0 && esv(*es[t].1).early =~= Set::<u64>::empty() by { if t < j { assert(rk[t - ms.len()] == rk0[t - ms0.len()]); } }
    }
}
/// second loop after t of the copies were written back
pub open spec fn raaf_b(m0: EMap, m: EMap, es: Seq<EEnt>, t: int) -> bool {
    &&& m.dom() =~= m0.dom()
    &&& forall|i: int| 0 <= i < t ==> esv(m[(#[trigger] es[i]).0]) == shift_v(esv(m0[es[i].0]))
    &&& forall|i: int| t <= i < es.len() ==> m[(#[trigger] es[i]).0] == m0[es[i].0]
}
pub open spec fn has_late(m0: EMap, qf: ChainEpoch) -> bool { exists|k: u64| m0.dom().contains(k) && #[trigger] is_late(k, qf) }
/// what reschedule_all_as_faults promises (qf = quantize_up(fault_expiration), a non-negative epoch)
pub open spec fn raaf_post(m0: EMap, m1: EMap, qf: ChainEpoch) -> bool {
    let qfu = qf as u64;
    // every key is an epoch; nothing is scheduled after the fault expiration any more; no entry has active power: all power is faulty
    &&& forall|k: u64| m0.dom().contains(k) ==> k <= 0x7fff_ffff_ffff_ffff
    &&& forall|k: u64| #[trigger] m1.dom().contains(k) ==> !is_late(k, qf) && esv(m1[k]).active_raw == 0 && esv(m1[k]).active_qa == 0
    // an entry at or before the fault expiration keeps its sectors, pledge and fee; its active power is added to its faulty power
    &&& forall|k: u64| k != qfu ==> (#[trigger] m1.dom().contains(k) <==> m0.dom().contains(k) && !is_late(k, qf))
    &&& forall|k: u64| k != qfu && m1.dom().contains(k) ==> esv(#[trigger] m1[k]) == shift_v(esv(m0[k]))
    // the entries after it are gone; what they held is in the entry AT the fault expiration: their on-time sectors as early sectors, all their power as faulty
    // power, their fee (their pledge is dropped; an early sector in such an entry makes the call fail)
    &&& !has_late(m0, qf) ==> (m1.dom().contains(qfu) <==> m0.dom().contains(qfu)) && (m1.dom().contains(qfu) ==> esv(m1[qfu]) == shift_v(esv(m0[qfu])))
    &&& has_late(m0, qf) ==> m1.dom().contains(qfu) && exists|es: Seq<EEnt>| #[trigger] amt_entries(m0, es) && esv_eq(esv(m1[qfu]), esv_add(shift_v(eq_at(m0, qfu)), late_sum(es, es.len() as int, qf)))
}
pub proof fn lemma_raaf_done(m0: EMap, mb: EMap, mc: EMap, m1: EMap, es: Seq<EEnt>, qf: ChainEpoch, d: int, rk: Seq<u64>, x: EsV)
    requires
        amt_entries(m0, es), qf >= 0, 0 <= d <= es.len(), d + rk.len() == es.len(), raaf_b(m0, mb, es, d),
        forall|t: int| 0 <= t < es.len() ==> (#[trigger] es[t]).0 <= 0x7fff_ffff_ffff_ffff,
        forall|t: int| 0 <= t < d ==> !is_late((#[trigger] es[t]).0, qf),
        forall|t: int| d <= t < es.len() ==> is_late((#[trigger] es[t]).0, qf) && rk[t - d] == es[t].0,
        esv_eq(x, late_sum(es, es.len() as int, qf)), x.active_raw == 0 && x.active_qa == 0,
        rk.len() == 0 ==> m1 == mb,
        rk.len() > 0 ==> eq_upd(mb, mc, qf as u64, esv_add(eq_at(mb, qf as u64), x)) && m1 == mc.remove_keys(rk.to_set()),
    ensures raaf_post(m0, m1, qf),
{
    let qfu = qf as u64;
    let n = es.len() as int;
    assert forall|k: u64| m0.dom().contains(k) implies k <= 0x7fff_ffff_ffff_ffff by { let i = choose|i: int| 0 <= i < n && #[trigger] es[i].0 == k; }
    // position of a key decides whether it is late
    assert forall|k: u64| m0.dom().contains(k) implies (is_late(k, qf) <==> rk.to_set().contains(k)) by {
        let i = choose|i: int| 0 <= i < n && #[trigger] es[i].0 == k;
        if i >= d { assert(rk[i - d] == k); assert(rk.contains(k)); }
        if rk.contains(k) { let t = choose|t: int| 0 <= t < rk.len() && rk[t] == k; assert(es[d + t].0 == k); if i < d { assert(es[i].0 < es[d + t].0); } }
    }
    assert(has_late(m0, qf) <==> rk.len() > 0) by {
        if rk.len() > 0 { assert(is_late(es[d].0, qf) && m0.dom().contains(es[d].0)); }
        if has_late(m0, qf) { let k = choose|k: u64| m0.dom().contains(k) && #[trigger] is_late(k, qf); assert(rk.to_set().contains(k)); }
    }
    assert forall|k: u64| mb.dom().contains(k) implies esv(#[trigger] mb[k]) == (if is_late(k, qf) { esv(m0[k]) } else { shift_v(esv(m0[k])) }) by {
        let i = choose|i: int| 0 <= i < n && #[trigger] es[i].0 == k;
        if i < d { assert(esv(mb[es[i].0]) == shift_v(esv(m0[es[i].0]))); } else { assert(mb[es[i].0] == m0[es[i].0]); }
    }
    assert(!is_late(qfu, qf));
    if rk.len() > 0 {
        assert(!rk.to_set().contains(qfu)) by { if rk.contains(qfu) { let t = choose|t: int| 0 <= t < rk.len() && rk[t] == qfu; assert(is_late(es[d + t].0, qf)); } }
        assert(eq_at(mb, qfu) == shift_v(eq_at(m0, qfu))) by { if !mb.dom().contains(qfu) { assert(shift_v(esv_zero()) == esv_zero()); } }
        assert forall|k: u64| k != qfu && mb.dom().contains(k) implies mc[k] == mb[k] by { }
        assert forall|k: u64| #[trigger] m1.dom().contains(k) implies !is_late(k, qf) && esv(m1[k]).active_raw == 0 && esv(m1[k]).active_qa == 0 by {
            if k != qfu { assert(mb.dom().contains(k)); assert(mc[k] == mb[k]); }
        }
    } else {
        assert forall|k: u64| m0.dom().contains(k) implies !is_late(k, qf) by { assert(!rk.to_set().contains(k)); }
    }
}

//@ fn actors/miner/src/expiration_queue.rs ExpirationQueue::reschedule_all_as_faults sub5="e . try_into () ?=>vx_index_to_epoch(e)?" sub0="return Ok (()) ;=>proof { lemma_raaf_done(old(self).amt.view(), self.amt.view(), self.amt.view(), self.amt.view(), __vx_ges, quantized_fault_expiration, __vx_ms.len() as int, rescheduled_epochs@, __vx_x); } return Ok::<(), AnyhowError>(());" sub1="? ; Ok (())=>?; proof { lemma_raaf_done(old(self).amt.view(), __vx_mb, __vx_mc, self.amt.view(), __vx_ges, quantized_fault_expiration, __vx_ms.len() as int, __vx_rk, __vx_x); } Ok::<(), AnyhowError>(())" sub2="self . amt . for_each=>let __vx_es = self.amt.vx_entries_sorted()?; let ghost __vx_ges = __vx_es@; let ghost mut __vx_ms0 = mutated_expiration_sets@; let ghost mut __vx_rk0 = rescheduled_epochs@; let ghost mut __vx_acc0 = esv_zero(); vx_done" sub3="| e , expiration_set |=>for (e, expiration_set) in it: __vx_es invariant it.seq() == __vx_ges, amt_entries(self.amt.view(), __vx_ges), *self == *old(self), __vx_ms0 == mutated_expiration_sets@, __vx_rk0 == rescheduled_epochs@, __vx_acc0 == raaf_acc(rescheduled_sectors@, rescheduled_power, rescheduled_daily_fee@), raaf_a(__vx_ges, it.index@ as int, quantized_fault_expiration, mutated_expiration_sets@, rescheduled_epochs@, raaf_acc(rescheduled_sectors@, rescheduled_power, rescheduled_daily_fee@))" sub4="Ok (())=>{ proof { lemma_raaf_a_step(self.amt.view(), __vx_ges, it.index@ as int, quantized_fault_expiration, __vx_ms0, __vx_rk0, __vx_acc0, mutated_expiration_sets@, rescheduled_epochs@, raaf_acc(rescheduled_sectors@, rescheduled_power, rescheduled_daily_fee@)); __vx_ms0 = mutated_expiration_sets@; __vx_rk0 = rescheduled_epochs@; __vx_acc0 = raaf_acc(rescheduled_sectors@, rescheduled_power, rescheduled_daily_fee@); } }"
    requires q_ok(old(self).quant), ep_ok(fault_expiration as int), quantize_up_spec(old(self).quant, fault_expiration as int) >= 0,
    ensures
        final(self).quant == old(self).quant,
        r.is_ok() ==> raaf_post(old(self).amt.view(), final(self).amt.view(), quantize_up_spec(old(self).quant, fault_expiration as int) as ChainEpoch),
//@ before "for (epoch , expiration_set) in"
        let ghost __vx_ms = mutated_expiration_sets@;
        let ghost __vx_x = raaf_acc(rescheduled_sectors@, rescheduled_power, rescheduled_daily_fee@);
//@ loop 0 iter=it
            invariant
                it.seq() == __vx_ms, self.quant == old(self).quant, q_ok(self.quant), amt_entries(old(self).amt.view(), __vx_ges),
                raaf_a(__vx_ges, __vx_ges.len() as int, quantized_fault_expiration, __vx_ms, rescheduled_epochs@, __vx_x),
                raaf_b(old(self).amt.view(), self.amt.view(), __vx_ges, it.index@ as int),
//@ loopstart 0
            let ghost __vx_m_before = self.amt.view();
//@ loopend 0
            proof {
                let t = it.index@ as int;
                let k = __vx_ges[t].0;
                assert(old(self).amt.view().dom().contains(k));
                assert(self.amt.view().dom() =~= old(self).amt.view().dom());
                assert forall|i: int| 0 <= i < t + 1 implies esv(self.amt.view()[(#[trigger] __vx_ges[i]).0]) == shift_v(esv(old(self).amt.view()[__vx_ges[i].0])) by { if i < t { assert(__vx_ges[i].0 < __vx_ges[t].0); } }
                assert forall|i: int| t + 1 <= i < __vx_ges.len() implies self.amt.view()[(#[trigger] __vx_ges[i]).0] == old(self).amt.view()[__vx_ges[i].0] by { assert(__vx_ges[t].0 < __vx_ges[i].0); }
            }
//@ before "self . add"
        let ghost __vx_mb = self.amt.view();
        let ghost __vx_rk = rescheduled_epochs@;
//@ before "self . amt . batch_delete"
        let ghost __vx_mc = self.amt.view();
//@ end

// ======================= power_for_sectors (lib.rs) =======================
/// `iter().map(F).sum()` over a slice (Sum for BigInt: fold with `+` from zero), done textually as the loop it abbreviates; the mapped expression stays in place
//@ fn actors/miner/src/lib.rs power_for_sectors suball0="sector_size as u64=>sector_size.v" sub0="sectors . iter () . map=>{ let mut __vx_acc = BigInt::zero(); for s in it: sectors.iter() invariant it.seq().len() == sectors@.len(), forall|j: int| 0 <= j < sectors@.len() ==> *(#[trigger] it.seq()[j]) == sectors@[j], __vx_acc@ == sum_qa(sector_size.v, svs(sectors@).take(it.index@ as int)) { __vx_acc = ::core::ops::Add::add(__vx_acc, vx_id" sub1="| s |=>" sub2=". sum ()=>); proof { let k = it.index@ as int; let sv = svs(sectors@); assert(sv.take(k + 1).drop_last() =~= sv.take(k)); assert(sv.take(k + 1).last() == secv(sectors@[k])); } } proof { assert(svs(sectors@).take(sectors@.len() as int) =~= svs(sectors@)); } __vx_acc }"
    ensures
        // the power of a list of sectors: n * sector size raw, and the sum of the sectors' quality-adjusted power
        r.raw@ == sector_size.v * sectors@.len(), r.qa@ == sum_qa(sector_size.v, svs(sectors@)),
//@ end
} // verus!
fn main() {}
