// unit: miner Partition — set nesting and power memos (C04; power deltas for C02)
//@ include prelude/core.rs
//@ include prelude/ipld.rs
//@ include prelude/bitfield.rs
use std::ops;
verus! {

//@ item actors/miner/src/partition_state.rs PowerPair
//@ item actors/miner/src/partition_state.rs Partition
// derive(Clone, Default) of PowerPair re-stated (derives are stripped by the extractor); verified, not assumed
impl Clone for PowerPair {
    fn clone(&self) -> (r: Self) ensures r.raw@ == self.raw@, r.qa@ == self.qa@ { PowerPair { raw: self.raw.clone(), qa: self.qa.clone() } }
}
impl Default for PowerPair {
    fn default() -> (r: Self) ensures r.raw@ == 0, r.qa@ == 0 { PowerPair { raw: BigInt::zero(), qa: BigInt::zero() } }
}
// operator glue demanded by Verus for every overloaded operator (no semantic content: *_req true, results by the ensures of the real fns)
impl<'a> vstd::std_specs::ops::AddSpecImpl<&'a PowerPair> for &'a PowerPair {
    open spec fn obeys_add_spec() -> bool { false }
    open spec fn add_req(self, rhs: &'a PowerPair) -> bool { true }
    uninterp spec fn add_spec(self, rhs: &'a PowerPair) -> PowerPair;
}
impl<'a> vstd::std_specs::ops::SubSpecImpl<&'a PowerPair> for &'a PowerPair {
    open spec fn obeys_sub_spec() -> bool { false }
    open spec fn sub_req(self, rhs: &'a PowerPair) -> bool { true }
    uninterp spec fn sub_spec(self, rhs: &'a PowerPair) -> PowerPair;
}
impl<'a> vstd::std_specs::ops::SubAssignSpecImpl<&'a PowerPair> for PowerPair {
    open spec fn obeys_sub_assign_spec() -> bool { false }
    open spec fn sub_assign_req(&self, rhs: &'a PowerPair) -> bool { true }
    uninterp spec fn sub_assign_spec(&self, rhs: &'a PowerPair) -> &PowerPair;
}

//@ fn actors/miner/src/partition_state.rs PowerPair::zero
    ensures r.raw@ == 0, r.qa@ == 0,
//@ end
//@ fn actors/miner/src/partition_state.rs "<&PowerPair as Add>::add"
    ensures r.raw@ == self.raw@ + rhs.raw@, r.qa@ == self.qa@ + rhs.qa@,
//@ end
//@ fn actors/miner/src/partition_state.rs "<&PowerPair as Sub>::sub"
    ensures r.raw@ == self.raw@ - rhs.raw@, r.qa@ == self.qa@ - rhs.qa@,
//@ end
//@ fn actors/miner/src/partition_state.rs "<PowerPair as SubAssign>::sub_assign"
    ensures final(self).raw@ == old(self).raw@ - rhs.raw@, final(self).qa@ == old(self).qa@ - rhs.qa@,
//@ end

// ======================= the protocol's nesting of the five sets =======================
pub open spec fn bf_nested(p: Partition) -> bool {
    &&& p.terminated@.intersect(p.unproven@.union(p.faults@)) =~= vstd::set::Set::<u64>::empty()   // terminated excludes unproven and faulty
    &&& p.unproven@.union(p.faults@).union(p.terminated@).subset_of(p.sectors@)    // all are sectors of this partition
    &&& p.recoveries@.subset_of(p.faults@)                                         // recovering sectors are faulty
}
pub open spec fn pw_nonneg(x: PowerPair) -> bool { x.raw@ >= 0 && x.qa@ >= 0 }
pub open spec fn power_ok(p: Partition) -> bool {
    &&& pw_nonneg(p.live_power) && pw_nonneg(p.unproven_power) && pw_nonneg(p.faulty_power) && pw_nonneg(p.recovering_power)
    &&& p.unproven_power.raw@ <= p.live_power.raw@
    &&& p.faulty_power.raw@ <= p.live_power.raw@
    &&& p.recovering_power.raw@ <= p.faulty_power.raw@
}

//@ fn actors/miner/src/partition_state.rs Partition::validate_bf_state
    ensures
        // the runtime guard run after every update is faithful: Ok exactly when the sets nest as the protocol defines
        r.is_ok() <==> bf_nested(*self),
//@ end
//@ fn actors/miner/src/partition_state.rs Partition::validate_power_state
    ensures
        r.is_ok() <==> power_ok(*self),
//@ end
//@ fn actors/miner/src/partition_state.rs Partition::validate_state
    ensures
        r.is_ok() <==> (power_ok(*self) && bf_nested(*self)),
//@ end

//@ fn actors/miner/src/partition_state.rs Partition::live_sectors
    ensures r@ == self.sectors@.difference(self.terminated@),
//@ end
//@ fn actors/miner/src/partition_state.rs Partition::active_sectors
    ensures r@ == self.sectors@.difference(self.terminated@).difference(self.faults@).difference(self.unproven@),
//@ end
//@ fn actors/miner/src/partition_state.rs Partition::active_power
    ensures
        // power credited for this partition: live minus faulty minus not-yet-proven
        r.raw@ == self.live_power.raw@ - self.faulty_power.raw@ - self.unproven_power.raw@,
        r.qa@ == self.live_power.qa@ - self.faulty_power.qa@ - self.unproven_power.qa@,
//@ end

//@ fn actors/miner/src/partition_state.rs Partition::remove_recoveries
    ensures
        final(self).recoveries@ == (if sector_numbers@ =~= vstd::set::Set::<u64>::empty() { old(self).recoveries@ } else { old(self).recoveries@.difference(sector_numbers@) }),
        !(sector_numbers@ =~= vstd::set::Set::<u64>::empty()) ==> final(self).recovering_power.raw@ == old(self).recovering_power.raw@ - power.raw@
            && final(self).recovering_power.qa@ == old(self).recovering_power.qa@ - power.qa@,
        // nothing else moves
        final(self).sectors == old(self).sectors, final(self).unproven == old(self).unproven, final(self).faults == old(self).faults,
        final(self).terminated == old(self).terminated, final(self).live_power == old(self).live_power,
        final(self).unproven_power == old(self).unproven_power, final(self).faulty_power == old(self).faulty_power,
        final(self).expirations_epochs == old(self).expirations_epochs, final(self).early_terminated == old(self).early_terminated,
        bf_nested(*old(self)) ==> bf_nested(*final(self)),
//@ end

//@ fn actors/miner/src/partition_state.rs Partition::activate_unproven
    ensures
        // a successful proof activates ALL unproven sectors: the returned power is exactly the unproven memo, which becomes zero
        r.raw@ == old(self).unproven_power.raw@ && r.qa@ == old(self).unproven_power.qa@,
        final(self).unproven@ =~= vstd::set::Set::<u64>::empty(),
        final(self).unproven_power.raw@ == 0 && final(self).unproven_power.qa@ == 0,
        final(self).sectors == old(self).sectors, final(self).faults == old(self).faults, final(self).recoveries == old(self).recoveries,
        final(self).terminated == old(self).terminated, final(self).live_power == old(self).live_power,
        final(self).faulty_power == old(self).faulty_power, final(self).recovering_power == old(self).recovering_power,
        bf_nested(*old(self)) ==> bf_nested(*final(self)),
//@ end

} // verus!
fn main() {}
