// unit: miner Partition — set nesting and power memos (C04; power deltas for C02)
//@ include prelude/core.rs
//@ include prelude/ipld.rs
//@ include prelude/bitfield.rs
use std::ops;
verus! {

//@ item actors/miner/src/partition_state.rs PowerPair
//@ item actors/miner/src/partition_state.rs Partition
//@ item actors/miner/src/quantize.rs QuantSpec attr="#[derive(Clone, Copy)]"
//@ item actors/miner/src/expiration_queue.rs ExpirationSet
//@ const actors/miner/src/quantize.rs NO_QUANTIZATION
//@ include prelude/miner_partition_assumed.rs
//@ include units/shared/power_pair.inc

// ======================= the protocol's nesting of the five sets =======================
pub open spec fn bf_nested(p: Partition) -> bool {
    &&& p.terminated@.intersect(p.unproven@.union(p.faults@)) =~= vstd::set::Set::<u64>::empty()   // terminated excludes unproven and faulty
    &&& p.unproven@.union(p.faults@).union(p.terminated@).subset_of(p.sectors@)    // all are sectors of this partition
    &&& p.recoveries@.subset_of(p.faults@)                                         // recovering sectors are faulty
}
pub open spec fn pw_nonneg(x: PowerPair) -> bool { x.raw@ >= 0 && x.qa@ >= 0 }
pub open spec fn power_ok(p: Partition) -> bool {
    &&& pw_nonneg(p.live_power) && pw_nonneg(p.unproven_power) && pw_nonneg(p.faulty_power) && pw_nonneg(p.recovering_power)
    &&& p.unproven_power.raw@ <= p.live_power.raw@
    &&& p.faulty_power.raw@ <= p.live_power.raw@
    &&& p.recovering_power.raw@ <= p.faulty_power.raw@
}

//@ fn actors/miner/src/partition_state.rs Partition::validate_bf_state
    ensures
        // the runtime guard run after every update is faithful: Ok exactly when the sets nest as the protocol defines
        r.is_ok() <==> bf_nested(*self),
//@ end
//@ fn actors/miner/src/partition_state.rs Partition::validate_power_state
    ensures
        r.is_ok() <==> power_ok(*self),
//@ end
//@ fn actors/miner/src/partition_state.rs Partition::validate_state
    ensures
        r.is_ok() <==> (power_ok(*self) && bf_nested(*self)),
//@ end

//@ fn actors/miner/src/partition_state.rs Partition::live_sectors
    ensures r@ == self.sectors@.difference(self.terminated@),
//@ end
//@ fn actors/miner/src/partition_state.rs Partition::active_sectors
    ensures r@ == self.sectors@.difference(self.terminated@).difference(self.faults@).difference(self.unproven@),
//@ end
//@ fn actors/miner/src/partition_state.rs Partition::active_power
    ensures
        // power credited for this partition: live minus faulty minus not-yet-proven
        r.raw@ == self.live_power.raw@ - self.faulty_power.raw@ - self.unproven_power.raw@,
        r.qa@ == self.live_power.qa@ - self.faulty_power.qa@ - self.unproven_power.qa@,
//@ end

//@ fn actors/miner/src/partition_state.rs Partition::remove_recoveries
    ensures
        final(self).recoveries@ == (if sector_numbers@ =~= vstd::set::Set::<u64>::empty() { old(self).recoveries@ } else { old(self).recoveries@.difference(sector_numbers@) }),
        !(sector_numbers@ =~= vstd::set::Set::<u64>::empty()) ==> final(self).recovering_power.raw@ == old(self).recovering_power.raw@ - power.raw@
            && final(self).recovering_power.qa@ == old(self).recovering_power.qa@ - power.qa@,
        // nothing else moves
        final(self).sectors == old(self).sectors, final(self).unproven == old(self).unproven, final(self).faults == old(self).faults,
        final(self).terminated == old(self).terminated, final(self).live_power == old(self).live_power,
        final(self).unproven_power == old(self).unproven_power, final(self).faulty_power == old(self).faulty_power,
        final(self).expirations_epochs == old(self).expirations_epochs, final(self).early_terminated == old(self).early_terminated,
        bf_nested(*old(self)) ==> bf_nested(*final(self)),
//@ end

// ======================= faults and recoveries: the power delta reported upward is exactly the change of ACTIVE power (C02) =======================
pub open spec fn act_raw(p: Partition) -> int { p.live_power.raw@ - p.faulty_power.raw@ - p.unproven_power.raw@ }
pub open spec fn act_qa(p: Partition) -> int { p.live_power.qa@ - p.faulty_power.qa@ - p.unproven_power.qa@ }

//@ fn actors/miner/src/partition_state.rs Partition::add_faults ret=res
    ensures
        res.is_ok() ==> ({
            let (power_delta, new_faulty) = res->Ok_0;
            // "a sector contributes no power ... while it is faulty": the delta sent to the power actor equals the change of active power,
            // so never-proven sectors (which never contributed) are not subtracted
            &&& power_delta.raw@ == act_raw(*final(self)) - act_raw(*old(self))
            &&& power_delta.qa@ == act_qa(*final(self)) - act_qa(*old(self))
            &&& final(self).faulty_power.raw@ == old(self).faulty_power.raw@ + new_faulty.raw@
            &&& final(self).faulty_power.qa@ == old(self).faulty_power.qa@ + new_faulty.qa@
            &&& final(self).live_power.raw@ == old(self).live_power.raw@ && final(self).live_power.qa@ == old(self).live_power.qa@
            &&& final(self).recovering_power == old(self).recovering_power
            // set effects: the sectors become faulty and leave the unproven set; nothing else moves
            &&& final(self).faults@ =~= old(self).faults@.union(sector_numbers@)
            &&& final(self).unproven@ =~= old(self).unproven@.difference(sector_numbers@)
            &&& final(self).sectors == old(self).sectors && final(self).recoveries == old(self).recoveries && final(self).terminated == old(self).terminated
            // and the result passed the partition's own nesting check
            &&& bf_nested(*final(self)) && power_ok(*final(self))
        }),
//@ end

//@ fn actors/miner/src/partition_state.rs Partition::recover_faults
    ensures
        r.is_ok() ==> ({
            let power = r->Ok_0;
            // recovered sectors leave faults and recoveries; faulty and recovering power drop by the same amount: active power rises by it
            &&& final(self).faults@ =~= old(self).faults@.difference(old(self).recoveries@)
            &&& final(self).recoveries@ =~= vstd::set::Set::<u64>::empty()
            &&& final(self).faulty_power.raw@ == old(self).faulty_power.raw@ - power.raw@ && final(self).faulty_power.qa@ == old(self).faulty_power.qa@ - power.qa@
            &&& final(self).recovering_power.raw@ == old(self).recovering_power.raw@ - power.raw@ && final(self).recovering_power.qa@ == old(self).recovering_power.qa@ - power.qa@
            &&& power.raw@ == act_raw(*final(self)) - act_raw(*old(self)) && power.qa@ == act_qa(*final(self)) - act_qa(*old(self))
            &&& final(self).sectors == old(self).sectors && final(self).unproven == old(self).unproven && final(self).terminated == old(self).terminated
            &&& final(self).live_power == old(self).live_power && final(self).unproven_power == old(self).unproven_power
            &&& bf_nested(*final(self)) && power_ok(*final(self))
        }),
//@ end

//@ fn actors/miner/src/partition_state.rs Partition::activate_unproven
    ensures
        // a successful proof activates ALL unproven sectors: the returned power is exactly the unproven memo, which becomes zero
        r.raw@ == old(self).unproven_power.raw@ && r.qa@ == old(self).unproven_power.qa@,
        final(self).unproven@ =~= vstd::set::Set::<u64>::empty(),
        final(self).unproven_power.raw@ == 0 && final(self).unproven_power.qa@ == 0,
        final(self).sectors == old(self).sectors, final(self).faults == old(self).faults, final(self).recoveries == old(self).recoveries,
        final(self).terminated == old(self).terminated, final(self).live_power == old(self).live_power,
        final(self).faulty_power == old(self).faulty_power, final(self).recovering_power == old(self).recovering_power,
        bf_nested(*old(self)) ==> bf_nested(*final(self)),
//@ end

//@ fn actors/miner/src/partition_state.rs Partition::record_missed_post ret=res
    ensures
        res.is_ok() ==> ({
            let (power_delta, penalized, new_faulty) = res->Ok_0;
            // "a deadline that closes without a proof removes the power of its unproven partitions": after a missed PoSt every live sector is
            // faulty, nothing is recovering or unproven, the partition contributes no active power, and the delta reported is exactly that loss
            &&& final(self).faults@ =~= old(self).sectors@.difference(old(self).terminated@)
            &&& final(self).recoveries@ =~= vstd::set::Set::<u64>::empty() && final(self).unproven@ =~= vstd::set::Set::<u64>::empty()
            &&& act_raw(*final(self)) == 0 && act_qa(*final(self)) == 0
            &&& power_delta.raw@ == act_raw(*final(self)) - act_raw(*old(self)) && power_delta.qa@ == act_qa(*final(self)) - act_qa(*old(self))
            // newly faulty = live power that was not faulty yet; penalised = that plus the failed recoveries
            &&& new_faulty.raw@ == old(self).live_power.raw@ - old(self).faulty_power.raw@ && new_faulty.qa@ == old(self).live_power.qa@ - old(self).faulty_power.qa@
            &&& penalized.raw@ == old(self).recovering_power.raw@ + new_faulty.raw@ && penalized.qa@ == old(self).recovering_power.qa@ + new_faulty.qa@
            &&& final(self).live_power.raw@ == old(self).live_power.raw@ && final(self).live_power.qa@ == old(self).live_power.qa@
            &&& final(self).sectors == old(self).sectors && final(self).terminated == old(self).terminated
            &&& bf_nested(*final(self)) && power_ok(*final(self))
        }),
//@ end

//@ fn actors/miner/src/lib.rs validate_partition_contains_sectors
    ensures r.is_ok() <==> sectors@.subset_of(partition.sectors@),
//@ end
//@ fn actors/miner/src/partition_state.rs Partition::record_skipped_faults ret=res
    ensures
        res.is_ok() ==> ({
            let (power_delta, new_fault_power, retracted_power, has_new) = res->Ok_0;
            // "a sector contributes no power ... while it is skipped": skipped live non-faulty sectors become faulty, skipped recoveries are
            // retracted, and the reported delta is exactly the change of active power
            &&& skipped@.subset_of(old(self).sectors@)
            &&& final(self).faults@ =~= old(self).faults@.union(skipped@.difference(old(self).terminated@))
            &&& final(self).recoveries@ =~= old(self).recoveries@.difference(skipped@)
            &&& power_delta.raw@ == act_raw(*final(self)) - act_raw(*old(self)) && power_delta.qa@ == act_qa(*final(self)) - act_qa(*old(self))
            &&& final(self).sectors == old(self).sectors && final(self).terminated == old(self).terminated
            &&& final(self).live_power.raw@ == old(self).live_power.raw@ && final(self).live_power.qa@ == old(self).live_power.qa@
        }),
//@ before "self . validate_state ()"
        proof {
            assert(retracted_recoveries@ =~= old(self).recoveries@.intersect(skipped@));
            assert(old(self).recoveries@.difference(retracted_recoveries@) =~= old(self).recoveries@.difference(skipped@));
            if retracted_recoveries@ =~= vstd::set::Set::<u64>::empty() { assert(old(self).recoveries@.difference(skipped@) =~= old(self).recoveries@); }
        }
//@ end
//@ fn actors/miner/src/partition_state.rs Partition::declare_faults_recovered
    ensures
        r.is_ok() ==> sector_numbers@.subset_of(old(self).sectors@)
            // only faulty sectors can be declared recovering; faults, terminations and active power are untouched
            && final(self).recoveries@ =~= old(self).recoveries@.union(sector_numbers@.intersect(old(self).faults@))
            && final(self).faults == old(self).faults && final(self).terminated == old(self).terminated && final(self).sectors == old(self).sectors
            && final(self).unproven == old(self).unproven
            && act_raw(*final(self)) == act_raw(*old(self)) && act_qa(*final(self)) == act_qa(*old(self)),
//@ end

//@ fn actors/miner/src/partition_state.rs Partition::record_faults ret=res
    ensures
        res.is_ok() ==> ({
            let (new_faults, power_delta, new_faulty) = res->Ok_0;
            // a declared fault: live, not yet faulty sectors become faulty (terminated ones are skipped), declared recoveries among them are retracted,
            // and the delta reported upward is exactly the change of active power
            &&& sector_numbers@.subset_of(old(self).sectors@)
            &&& new_faults@ =~= sector_numbers@.difference(old(self).recoveries@).difference(old(self).terminated@).difference(old(self).faults@)
            &&& final(self).faults@ =~= old(self).faults@.union(new_faults@)
            &&& final(self).recoveries@ =~= old(self).recoveries@.difference(sector_numbers@)
            &&& power_delta.raw@ == act_raw(*final(self)) - act_raw(*old(self)) && power_delta.qa@ == act_qa(*final(self)) - act_qa(*old(self))
            &&& final(self).sectors == old(self).sectors && final(self).terminated == old(self).terminated
        }),
//@ before "self . validate_state ()"
        proof {
            assert(retracted_recoveries@ =~= old(self).recoveries@.intersect(sector_numbers@));
            assert(old(self).recoveries@.difference(retracted_recoveries@) =~= old(self).recoveries@.difference(sector_numbers@));
            if retracted_recoveries@ =~= vstd::set::Set::<u64>::empty() { assert(old(self).recoveries@.difference(sector_numbers@) =~= old(self).recoveries@); }
        }
//@ end

// ======================= growth and shrinkage of the partition: sectors in, sectors out =======================
//@ fn actors/miner/src/partition_state.rs Partition::record_early_termination
    ensures
        // only the early-termination queue root moves
        final(self).sectors == old(self).sectors, final(self).unproven == old(self).unproven, final(self).faults == old(self).faults,
        final(self).recoveries == old(self).recoveries, final(self).terminated == old(self).terminated,
        final(self).expirations_epochs == old(self).expirations_epochs,
        final(self).live_power == old(self).live_power, final(self).unproven_power == old(self).unproven_power,
        final(self).faulty_power == old(self).faulty_power, final(self).recovering_power == old(self).recovering_power,
//@ end

//@ fn actors/miner/src/partition_state.rs Partition::add_sectors ret=res
    ensures
        res.is_ok() ==> ({
            let (power, fee) = res->Ok_0;
            // "a sector contributes no power before a PoSt has covered it": sectors added unproven change live and unproven power by the same
            // amount, so the partition's ACTIVE power is unchanged; only sectors added as proven raise it, by exactly the returned power
            &&& act_raw(*final(self)) - act_raw(*old(self)) == (if proven { power.raw@ } else { 0 })
            &&& act_qa(*final(self)) - act_qa(*old(self)) == (if proven { power.qa@ } else { 0 })
            &&& final(self).live_power.raw@ == old(self).live_power.raw@ + power.raw@ && final(self).live_power.qa@ == old(self).live_power.qa@ + power.qa@
            // the added sector numbers are all new, and appear in `unproven` exactly when added unproven
            &&& old(self).sectors@.subset_of(final(self).sectors@)
            &&& final(self).sectors@.difference(old(self).sectors@).disjoint(old(self).sectors@)
            &&& final(self).unproven@ =~= (if proven { old(self).unproven@ } else { old(self).unproven@.union(final(self).sectors@.difference(old(self).sectors@)) })
            &&& final(self).faults == old(self).faults && final(self).recoveries == old(self).recoveries && final(self).terminated == old(self).terminated
            &&& final(self).faulty_power == old(self).faulty_power && final(self).recovering_power == old(self).recovering_power
            &&& bf_nested(*final(self)) && power_ok(*final(self))
        }),
//@ end

//@ fn actors/miner/src/partition_state.rs Partition::replace_sectors ret=res
    ensures
        res.is_ok() ==> ({
            let (power_delta, pledge_delta, fee_delta) = res->Ok_0;
            // only ACTIVE (live, non-faulty, proven) sectors are replaced; live power moves by exactly the returned delta and so does active power
            &&& old(self).sectors@.difference(final(self).sectors@).subset_of(
                    old(self).sectors@.difference(old(self).terminated@).difference(old(self).faults@).difference(old(self).unproven@))
            &&& final(self).live_power.raw@ == old(self).live_power.raw@ + power_delta.raw@ && final(self).live_power.qa@ == old(self).live_power.qa@ + power_delta.qa@
            &&& act_raw(*final(self)) - act_raw(*old(self)) == power_delta.raw@ && act_qa(*final(self)) - act_qa(*old(self)) == power_delta.qa@
            &&& final(self).faults == old(self).faults && final(self).recoveries == old(self).recoveries && final(self).terminated == old(self).terminated
            &&& final(self).unproven == old(self).unproven
            &&& bf_nested(*final(self)) && power_ok(*final(self))
        }),
//@ end

//@ fn actors/miner/src/partition_state.rs Partition::pop_expired_sectors ret=res
    ensures
        res.is_ok() ==> ({
            let popped = res->Ok_0;
            let expired = popped.on_time_sectors@.union(popped.early_sectors@);
            // expiry happens only after proofs were handled; expired sectors become terminated, leave the fault set, and their power leaves the memos:
            // active power drops by exactly the popped active power
            &&& old(self).unproven@ =~= vstd::set::Set::<u64>::empty() && old(self).recoveries@ =~= vstd::set::Set::<u64>::empty()
            &&& old(self).terminated@.disjoint(expired)
            &&& final(self).terminated@ =~= old(self).terminated@.union(expired)
            &&& final(self).faults@ =~= old(self).faults@.difference(expired)
            &&& final(self).live_power.raw@ == old(self).live_power.raw@ - popped.active_power.raw@ - popped.faulty_power.raw@
            &&& final(self).live_power.qa@ == old(self).live_power.qa@ - popped.active_power.qa@ - popped.faulty_power.qa@
            &&& final(self).faulty_power.raw@ == old(self).faulty_power.raw@ - popped.faulty_power.raw@
            &&& final(self).faulty_power.qa@ == old(self).faulty_power.qa@ - popped.faulty_power.qa@
            &&& act_raw(*final(self)) - act_raw(*old(self)) == -popped.active_power.raw@ && act_qa(*final(self)) - act_qa(*old(self)) == -popped.active_power.qa@
            &&& final(self).sectors == old(self).sectors && final(self).unproven == old(self).unproven && final(self).recoveries == old(self).recoveries
            &&& bf_nested(*final(self)) && power_ok(*final(self))
        }),
//@ end

//@ fn actors/miner/src/partition_state.rs Partition::terminate_sectors ret=res
    ensures
        res.is_ok() ==> ({
            let (removed, removed_unproven) = res->Ok_0;
            let gone = removed.on_time_sectors@.union(removed.early_sectors@);
            // only live sectors terminate; whatever was removed becomes terminated and leaves faults, recoveries and unproven; the active power
            // reported as removed (net of never-proven power) is exactly the loss of active power
            &&& sector_numbers@.subset_of(old(self).sectors@.difference(old(self).terminated@))
            &&& final(self).terminated@ =~= old(self).terminated@.union(gone)
            &&& final(self).faults@ =~= old(self).faults@.difference(gone) && final(self).recoveries@ =~= old(self).recoveries@.difference(gone)
            &&& final(self).unproven@ =~= old(self).unproven@.difference(gone)
            &&& act_raw(*final(self)) - act_raw(*old(self)) == -removed.active_power.raw@ && act_qa(*final(self)) - act_qa(*old(self)) == -removed.active_power.qa@
            &&& final(self).faulty_power.raw@ == old(self).faulty_power.raw@ - removed.faulty_power.raw@
            &&& final(self).sectors == old(self).sectors
            &&& bf_nested(*final(self)) && power_ok(*final(self))
        }),
//@ end

} // verus!
fn main() {}
