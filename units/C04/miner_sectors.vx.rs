// unit: miner Sectors — the AMT sector number -> SectorOnChainInfo, and select_sectors (C04)
//@ include prelude/core.rs
//@ include prelude/ipld.rs
//@ include prelude/bitfield.rs
//@ include prelude/miner_expq_types.rs
//@ include prelude/btreeset.rs
//@ include prelude/miner_expq_amt.rs
//@ include prelude/miner_expq_btreeset.rs
use std::ops;
verus! {
pub type DealWeight = BigInt;
/// bitflags! SectorOnChainInfoFlags (opaque bit set; not used by the functions under contract)
#[derive(Clone, Copy, PartialEq, Eq, Structural)]
pub struct SectorOnChainInfoFlags { pub bits: u32 }
//@ item actors/miner/src/types.rs SectorOnChainInfo
//@ include prelude/miner_sector_clone.rs
//@ const runtime/src/runtime/policy.rs MAX_SECTOR_NUMBER
//@ item actors/miner/src/sectors.rs Sectors tsub0="Array < 'db , SectorOnChainInfo , BS >=>Array<SectorOnChainInfo, &'db BS>"

pub type SMap = Map<u64, SectorOnChainInfo>;
/// data invariant of the sectors table: the info stored under index n is the info of sector n (kept by `store`, the only writer)
pub open spec fn sectors_wf(m: SMap) -> bool { forall|k: u64| m.dom().contains(k) ==> (#[trigger] m[k]).sector_number == k }

//@ fn actors/miner/src/sectors.rs Sectors::load
    ensures r.is_ok() ==> r->Ok_0.amt.view() == array_decode::<SectorOnChainInfo>(*root),
//@ end

//@ fn actors/miner/src/sectors.rs Sectors::get
    ensures
        r.is_ok() ==> (r->Ok_0.is_some() <==> self.amt.view().dom().contains(sector_number)),
        r.is_ok() && r->Ok_0.is_some() ==> secv(r->Ok_0->Some_0) == secv(self.amt.view()[sector_number]),
//@ end
//@ fn actors/miner/src/sectors.rs Sectors::must_get
    ensures
        r.is_ok() ==> self.amt.view().dom().contains(sector_number) && secv(r->Ok_0) == secv(self.amt.view()[sector_number]),
        // an unknown sector is an error, never a default value
        !self.amt.view().dom().contains(sector_number) ==> r.is_err(),
//@ end

/// what load_sectors returns for the (increasing) list `bits` of the requested numbers: one info per number, in that order, a copy of the stored one
pub open spec fn loaded(m: SMap, bits: Seq<u64>, out: Seq<SectorOnChainInfo>, n: int) -> bool {
    &&& out.len() == n
    &&& forall|i: int| 0 <= i < n ==> m.dom().contains(bits[i]) && secv(#[trigger] out[i]) == secv(m[bits[i]])
}
//@ fn actors/miner/src/sectors.rs Sectors::load_sectors
    ensures
        // "one info per member of bf in increasing order ..." (bits = the members of the bitfield in increasing order)
        r.is_ok() ==> exists|bits: Seq<u64>| bits.to_set() == sector_numbers@ && bits.len() == sector_numbers@.len()
            && (forall|i: int, j: int| 0 <= i < j < bits.len() ==> bits[i] < bits[j]) && #[trigger] loaded(self.amt.view(), bits, r->Ok_0@, bits.len() as int),
        // "... (error if any is missing)"
        r.is_ok() ==> sector_numbers@.subset_of(self.amt.view().dom()),
        r.is_ok() ==> r->Ok_0@.len() == sector_numbers@.len(),
        // "... with info.sector_number equal to it": every stored info carries its own index
        r.is_ok() && sectors_wf(self.amt.view()) ==> r->Ok_0@.map_values(|s: SectorOnChainInfo| s.sector_number).to_set() =~= sector_numbers@
            && (forall|i: int, j: int| 0 <= i < j < r->Ok_0@.len() ==> r->Ok_0@[i].sector_number < r->Ok_0@[j].sector_number),
//@ loop 0 iter=it
            invariant
                it.seq() == sector_numbers.iter_spec(),
                loaded(self.amt.view(), it.seq(), sector_infos@, it.index@ as int),
//@ before "Ok (sector_infos)"
        proof {
            let bits = sector_numbers.iter_spec();
            assert(loaded(self.amt.view(), bits, sector_infos@, bits.len() as int));
            assert forall|b: u64| sector_numbers@.contains(b) implies self.amt.view().dom().contains(b) by {
                assert(bits.to_set().contains(b));
                let i = choose|i: int| 0 <= i < bits.len() && bits[i] == b;
                assert(secv(sector_infos@[i]) == secv(self.amt.view()[bits[i]]));
            }
            if sectors_wf(self.amt.view()) {
                let nums = sector_infos@.map_values(|s: SectorOnChainInfo| s.sector_number);
                assert forall|i: int| 0 <= i < nums.len() implies nums[i] == bits[i] by { assert(secv(sector_infos@[i]) == secv(self.amt.view()[bits[i]])); }
                assert(nums =~= bits);
                assert forall|i: int, j: int| 0 <= i < j < sector_infos@.len() implies sector_infos@[i].sector_number < sector_infos@[j].sector_number by { assert(nums[i] == bits[i] && nums[j] == bits[j]); }
            }
        }
//@ end

// ---------------- store ----------------
/// the table after storing the first n infos, each under its own sector number (a later info for the same number replaces an earlier one)
pub open spec fn store_spec(m0: SMap, infos: Seq<SectorOnChainInfo>, n: int) -> SMap
    decreases n
{ if n <= 0 { m0 } else { store_spec(m0, infos, n - 1).insert(infos[n - 1].sector_number, infos[n - 1]) } }
/// some info among the first n has sector number k
pub open spec fn named(infos: Seq<SectorOnChainInfo>, n: int, k: u64) -> bool { exists|i: int| 0 <= i < n && (#[trigger] infos[i]).sector_number == k }
/// "store overwrites exactly the given sector numbers"
pub open spec fn stored(m0: SMap, m1: SMap, infos: Seq<SectorOnChainInfo>, n: int) -> bool {
    // the indices present afterwards: the old ones and the given sector numbers
    &&& forall|k: u64| #[trigger] m1.dom().contains(k) <==> m0.dom().contains(k) || named(infos, n, k)
    // an index that is not named keeps its info
    &&& forall|k: u64| m0.dom().contains(k) && !named(infos, n, k) ==> #[trigger] m1[k] == m0[k]
    // a named index holds one of the given infos, one with that sector number
    &&& forall|k: u64| named(infos, n, k) ==> exists|j: int| 0 <= j < n && #[trigger] m1[k] == #[trigger] infos[j] && infos[j].sector_number == k
}
pub proof fn lemma_store_spec(m0: SMap, infos: Seq<SectorOnChainInfo>, n: int)
    requires 0 <= n <= infos.len(),
    ensures stored(m0, store_spec(m0, infos, n), infos, n), sectors_wf(m0) ==> sectors_wf(store_spec(m0, infos, n)),
    decreases n
{
    if n > 0 {
        lemma_store_spec(m0, infos, n - 1);
        let mb = store_spec(m0, infos, n - 1);
        let ma = store_spec(m0, infos, n);
        let kn = infos[n - 1].sector_number;
        assert(named(infos, n, kn)) by { assert(0 <= n - 1 < n && infos[n - 1].sector_number == kn); }
        assert forall|k: u64| named(infos, n, k) <==> named(infos, n - 1, k) || k == kn by {
            if named(infos, n - 1, k) { let i = choose|i: int| 0 <= i < n - 1 && (#[trigger] infos[i]).sector_number == k; assert(0 <= i < n && infos[i].sector_number == k); }
            if named(infos, n, k) { let i = choose|i: int| 0 <= i < n && (#[trigger] infos[i]).sector_number == k; if i < n - 1 { assert(named(infos, n - 1, k)); } }
        }
        assert forall|k: u64| named(infos, n, k) implies exists|j: int| 0 <= j < n && #[trigger] ma[k] == #[trigger] infos[j] && infos[j].sector_number == k by {
            if k == kn { assert(0 <= n - 1 < n && ma[k] == infos[n - 1] && infos[n - 1].sector_number == k); }
            else {
                let j = choose|j: int| 0 <= j < n - 1 && #[trigger] mb[k] == #[trigger] infos[j] && infos[j].sector_number == k;
                assert(0 <= j < n && ma[k] == infos[j] && infos[j].sector_number == k);
            }
        }
    } else {
        assert forall|k: u64| !named(infos, n, k) by { }
    }
}
//@ fn actors/miner/src/sectors.rs Sectors::store
    ensures
        // exact effect: every info is written under its own sector number, in order; numbers beyond MAX_SECTOR_NUMBER are refused
        r.is_ok() ==> final(self).amt.view() == store_spec(old(self).amt.view(), infos@, infos@.len() as int)
            && (forall|i: int| 0 <= i < infos@.len() ==> (#[trigger] infos@[i]).sector_number <= MAX_SECTOR_NUMBER),
        // hence "store overwrites exactly the given sector numbers", and every stored info sits under its own sector number
        r.is_ok() ==> stored(old(self).amt.view(), final(self).amt.view(), infos@, infos@.len() as int),
        r.is_ok() && sectors_wf(old(self).amt.view()) ==> sectors_wf(final(self).amt.view()),
//@ entry
        let ghost __vx_infos = infos@;
        proof { lemma_store_spec(self.amt.view(), __vx_infos, __vx_infos.len() as int); }
//@ loop 0 iter=it
            invariant
                it.seq() == __vx_infos,
                self.amt.view() == store_spec(old(self).amt.view(), __vx_infos, it.index@ as int),
                forall|i: int| 0 <= i < it.index@ ==> (#[trigger] __vx_infos[i]).sector_number <= MAX_SECTOR_NUMBER,
//@ end

// ---------------- select_sectors ----------------
pub type Infos = Seq<SectorOnChainInfo>;
/// the requested numbers not yet matched after the first n infos
pub open spec fn sel_rem(ss: Infos, f: Set<u64>, n: int) -> Set<u64>
    decreases n
{ if n <= 0 { f } else { sel_rem(ss, f, n - 1).remove(ss[n - 1].sector_number) } }
/// the infos selected among the first n: those whose number is requested and not matched earlier, in the order of `ss`
pub open spec fn sel_out(ss: Infos, f: Set<u64>, n: int) -> Seq<SecV>
    decreases n
{
    if n <= 0 { Seq::empty() } else if sel_rem(ss, f, n - 1).contains(ss[n - 1].sector_number) { sel_out(ss, f, n - 1).push(secv(ss[n - 1])) } else { sel_out(ss, f, n - 1) }
}
pub open spec fn sel_nums(out: Seq<SecV>) -> Set<u64> { out.map_values(|v: SecV| v.sector_number).to_set() }
/// some info among the first n has number b
pub open spec fn sel_has(ss: Infos, n: int, b: u64) -> bool { exists|i: int| 0 <= i < n && (#[trigger] ss[i]).sector_number == b }
pub proof fn lemma_sel(ss: Infos, f: Set<u64>, n: int)
    requires 0 <= n <= ss.len(),
    ensures
        // what is left to match: the requested numbers that no info so far carries
        forall|b: u64| #[trigger] sel_rem(ss, f, n).contains(b) <==> f.contains(b) && !sel_has(ss, n, b),
        // what was selected: exactly the requested numbers that some info carries, each once, each a copy of an info with that number
        forall|b: u64| #[trigger] sel_nums(sel_out(ss, f, n)).contains(b) <==> f.contains(b) && sel_has(ss, n, b),
        forall|x: int, y: int| 0 <= x < y < sel_out(ss, f, n).len() ==> sel_out(ss, f, n)[x].sector_number != sel_out(ss, f, n)[y].sector_number,
        forall|x: int| 0 <= x < sel_out(ss, f, n).len() ==> exists|i: int| 0 <= i < n && #[trigger] sel_out(ss, f, n)[x] == secv(#[trigger] ss[i]),
    decreases n
{
    if n > 0 {
        lemma_sel(ss, f, n - 1);
        let p = sel_out(ss, f, n - 1);
        let o = sel_out(ss, f, n);
        let kn = ss[n - 1].sector_number;
        let pn = p.map_values(|v: SecV| v.sector_number);
        let on = o.map_values(|v: SecV| v.sector_number);
        assert forall|b: u64| #[trigger] sel_rem(ss, f, n).contains(b) <==> f.contains(b) && !sel_has(ss, n, b) by {
            if sel_has(ss, n - 1, b) { let i = choose|i: int| 0 <= i < n - 1 && (#[trigger] ss[i]).sector_number == b; assert(0 <= i < n && ss[i].sector_number == b); }
            if b == kn { assert(0 <= n - 1 < n && ss[n - 1].sector_number == b); }
            if sel_has(ss, n, b) { let i = choose|i: int| 0 <= i < n && (#[trigger] ss[i]).sector_number == b; if i < n - 1 { assert(sel_has(ss, n - 1, b)); } }
        }
        let taken = sel_rem(ss, f, n - 1).contains(kn);
        assert forall|b: u64| #[trigger] sel_nums(o).contains(b) <==> f.contains(b) && sel_has(ss, n, b) by {
            if sel_has(ss, n - 1, b) { let i = choose|i: int| 0 <= i < n - 1 && (#[trigger] ss[i]).sector_number == b; assert(0 <= i < n && ss[i].sector_number == b); }
            if sel_has(ss, n, b) { let i = choose|i: int| 0 <= i < n && (#[trigger] ss[i]).sector_number == b; if i < n - 1 { assert(sel_has(ss, n - 1, b)); } }
            if b == kn { assert(0 <= n - 1 < n && ss[n - 1].sector_number == b); }
            if sel_nums(p).contains(b) { let x = choose|x: int| 0 <= x < pn.len() && pn[x] == b; assert(on[x] == b); assert(on.contains(b)); }
            if sel_nums(o).contains(b) {
                let x = choose|x: int| 0 <= x < on.len() && on[x] == b;
                if x < p.len() { assert(pn[x] == b); assert(pn.contains(b)); } else { assert(taken && b == kn); }
            }
            if taken && b == kn { assert(on[p.len() as int] == b); assert(on.contains(b)); }
        }
        assert forall|x: int, y: int| 0 <= x < y < o.len() implies o[x].sector_number != o[y].sector_number by {
            if y == p.len() { assert(pn[x] == p[x].sector_number); if p[x].sector_number == kn { assert(pn.contains(kn)); assert(sel_nums(p).contains(kn)); } }
        }
        assert forall|x: int| 0 <= x < o.len() implies exists|i: int| 0 <= i < n && #[trigger] o[x] == secv(#[trigger] ss[i]) by {
            if x < p.len() { let i = choose|i: int| 0 <= i < n - 1 && #[trigger] p[x] == secv(#[trigger] ss[i]); assert(0 <= i < n && o[x] == secv(ss[i])); }
            else { assert(0 <= n - 1 < n && o[x] == secv(ss[n - 1])); }
        }
    } else {
        assert(sel_out(ss, f, n).map_values(|v: SecV| v.sector_number) =~= Seq::<u64>::empty());
    }
}
/// `filter(|si| P)`: the predicate's verdict (identity; keeps the real predicate expression in place in the rewritten loop)
pub fn vx_pred(b: bool) -> (r: bool) ensures r == b { b }

/// what select_sectors establishes once the scan is over (`out` = the infos kept, `rem` = the requested numbers still unmatched)
pub open spec fn sel_post(ss: Infos, f: Set<u64>, out: Infos, rem: Set<u64>) -> bool {
    // exact result: the infos whose number is in the field (the first one, should a number occur twice in `ss`), in the order of `ss`
    &&& out.map_values(|s: SectorOnChainInfo| secv(s)) == sel_out(ss, f, ss.len() as int)
    // nothing is left unmatched exactly when every member of the field is carried by some info
    &&& (rem =~= Set::<u64>::empty()) <==> (forall|b: u64| f.contains(b) ==> sel_has(ss, ss.len() as int, b))
    // then the numbers returned are exactly the field, each once; each info returned is a copy of a given one
    &&& (rem =~= Set::<u64>::empty()) ==> sel_nums(out.map_values(|s: SectorOnChainInfo| secv(s))) =~= f
    &&& forall|x: int, y: int| 0 <= x < y < out.len() ==> out[x].sector_number != out[y].sector_number
    &&& forall|x: int| 0 <= x < out.len() ==> exists|i: int| 0 <= i < ss.len() && secv(#[trigger] out[x]) == secv(#[trigger] ss[i])
}
pub proof fn lemma_sel_post(ss: Infos, f: Set<u64>, out: Infos, rem: Set<u64>)
    requires out.map_values(|s: SectorOnChainInfo| secv(s)) =~= sel_out(ss, f, ss.len() as int), rem == sel_rem(ss, f, ss.len() as int),
    ensures sel_post(ss, f, out, rem),
{
    let n = ss.len() as int;
    lemma_sel(ss, f, n);
    let o = out.map_values(|s: SectorOnChainInfo| secv(s));
    assert forall|x: int, y: int| 0 <= x < y < out.len() implies out[x].sector_number != out[y].sector_number by { assert(o[x].sector_number != o[y].sector_number); }
    assert forall|x: int| 0 <= x < out.len() implies exists|i: int| 0 <= i < ss.len() && secv(#[trigger] out[x]) == secv(#[trigger] ss[i]) by {
        let i = choose|i: int| 0 <= i < n && #[trigger] o[x] == secv(#[trigger] ss[i]);
        assert(secv(out[x]) == secv(ss[i]));
    }
    if rem =~= Set::<u64>::empty() {
        assert forall|b: u64| f.contains(b) implies sel_has(ss, n, b) by { assert(!sel_rem(ss, f, n).contains(b)); }
        assert(sel_nums(o) =~= f);
    } else {
        let b = choose|b: u64| rem.contains(b);
        assert(f.contains(b) && !sel_has(ss, n, b));
    }
}

//@ fn actors/miner/src/sectors.rs select_sectors sub0="field . iter () . collect ()=>vx_bits_to_btreeset(field)" sub1="sectors . iter () . filter=>{ let mut __vx_out: Vec<SectorOnChainInfo> = Vec::new(); for si in it: sectors.iter() invariant it.seq().len() == sectors@.len(), forall|j: int| 0 <= j < sectors@.len() ==> *(#[trigger] it.seq()[j]) == sectors@[j], to_include.view() == sel_rem(sectors@, field@, it.index@ as int), __vx_out@.map_values(|s: SectorOnChainInfo| secv(s)) =~= sel_out(sectors@, field@, it.index@ as int) { if vx_pred" sub2="| si |=>" sub3=". cloned () . collect ()=>{ __vx_out.push(si.clone()); } } proof { lemma_sel_post(sectors@, field@, __vx_out@, to_include.view()); } __vx_out }"
    ensures
        // "fails unless every member of the field is matched"
        r.is_ok() <==> (forall|b: u64| field@.contains(b) ==> sel_has(sectors@, sectors@.len() as int, b)),
        // "returns exactly the infos whose number is in the field" (see sel_post: exact sequence; numbers == field, each once; copies of the given infos)
        r.is_ok() ==> sel_post(sectors@, field@, r->Ok_0@, Set::<u64>::empty()),
//@ end
} // verus!
fn main() {}
