// unit: miner BitFieldQueue — the deadline's expiration queue (quantised epoch -> partitions) as a finite map epoch -> set (C04)
//@ include prelude/core.rs
//@ include prelude/ipld.rs
//@ include prelude/bitfield.rs
//@ include prelude/miner_expq_amt.rs
use std::ops;
verus! {
//@ item actors/miner/src/quantize.rs QuantSpec attr="#[derive(Clone, Copy)]"
//@ item actors/miner/src/bitfield_queue.rs BitFieldQueue tsub0="Array < 'db , BitField , BS >=>Array<BitField, &'db BS>"
//@ include units/shared/expq_quant.inc
//@ include units/shared/expq_amtloop.inc

pub type QMap = Map<u64, BitField>;
/// the values queued under key `e` (none when there is no entry)
pub open spec fn bfq_at(m: QMap, e: u64) -> Set<u64> { if m.dom().contains(e) { m[e]@ } else { Set::<u64>::empty() } }
/// data invariants of the queue: keys are epochs (they came from an i64 through try_into), no entry is empty
pub open spec fn bfq_keys_ok(m: QMap) -> bool { forall|k: u64| m.dom().contains(k) ==> k <= 0x7fff_ffff_ffff_ffff }
pub open spec fn bfq_no_empty(m: QMap) -> bool { forall|k: u64| m.dom().contains(k) ==> !(#[trigger] m[k]@ =~= Set::<u64>::empty()) }
/// `m1` is `m0` with `vals` added under key `e`, and nothing else changed
pub open spec fn bfq_added(m0: QMap, m1: QMap, e: u64, vals: Set<u64>) -> bool {
    &&& m1.dom() =~= m0.dom().insert(e)
    &&& m1[e]@ =~= bfq_at(m0, e).union(vals)
    &&& forall|k: u64| k != e && m0.dom().contains(k) ==> #[trigger] m1[k] == m0[k]
}

//@ fn actors/miner/src/bitfield_queue.rs BitFieldQueue::new
    ensures r.is_ok() ==> r->Ok_0.amt.view() == array_decode::<BitField>(*root) && r->Ok_0.quant == quant,
//@ end

//@ fn actors/miner/src/bitfield_queue.rs BitFieldQueue::add_to_queue
    requires q_ok(old(self).quant), ep_ok(raw_epoch as int),
    ensures
        final(self).quant == old(self).quant,
        r.is_err() ==> final(self).amt.view() == old(self).amt.view(),
        // nothing to add: nothing changes
        r.is_ok() && values@ =~= Set::<u64>::empty() ==> final(self).amt.view() == old(self).amt.view(),
        // "an added value lands under quantize_up(epoch) and nowhere else, existing entries only grow"
        r.is_ok() && !(values@ =~= Set::<u64>::empty()) ==> quantize_up_spec(old(self).quant, raw_epoch as int) >= 0
            && bfq_added(old(self).amt.view(), final(self).amt.view(), quantize_up_spec(old(self).quant, raw_epoch as int) as u64, values@),
        bfq_keys_ok(old(self).amt.view()) ==> bfq_keys_ok(final(self).amt.view()),
        bfq_no_empty(old(self).amt.view()) ==> bfq_no_empty(final(self).amt.view()),
//@ end

//@ fn actors/miner/src/bitfield_queue.rs BitFieldQueue::add_to_queue_values sigsub0="impl IntoIterator < Item = u64 >=>Vec<u64>"
    requires q_ok(old(self).quant), ep_ok(epoch as int),
    ensures
        final(self).quant == old(self).quant,
        r.is_err() ==> final(self).amt.view() == old(self).amt.view(),
        r.is_ok() && values@.len() == 0 ==> final(self).amt.view() == old(self).amt.view(),
        r.is_ok() && values@.len() > 0 ==> quantize_up_spec(old(self).quant, epoch as int) >= 0
            && bfq_added(old(self).amt.view(), final(self).amt.view(), quantize_up_spec(old(self).quant, epoch as int) as u64, values@.to_set()),
        bfq_keys_ok(old(self).amt.view()) ==> bfq_keys_ok(final(self).amt.view()),
        bfq_no_empty(old(self).amt.view()) ==> bfq_no_empty(final(self).amt.view()),
//@ entry
        proof { if values@.len() > 0 { assert(values@.to_set().contains(values@[0])); } else { assert(values@.to_set() =~= Set::<u64>::empty()); } }
//@ end

// ---------------- pop_until ----------------
pub type BEnt<'b> = (u64, &'b BitField);
/// union of the values of the first n visited entries
pub open spec fn bfq_union(es: Seq<BEnt>, n: int) -> Set<u64>
    decreases n
{ if n <= 0 { Set::<u64>::empty() } else { bfq_union(es, n - 1).union(es[n - 1].1@) } }
pub proof fn lemma_bfq_union(es: Seq<BEnt>, n: int)
    requires 0 <= n <= es.len(),
    ensures forall|v: u64| #[trigger] bfq_union(es, n).contains(v) <==> exists|j: int| 0 <= j < n && (#[trigger] es[j]).1@.contains(v),
    decreases n
{
    if n > 0 {
        lemma_bfq_union(es, n - 1);
        assert forall|v: u64| #[trigger] bfq_union(es, n).contains(v) <==> exists|j: int| 0 <= j < n && (#[trigger] es[j]).1@.contains(v) by {
            if bfq_union(es, n - 1).contains(v) { let j = choose|j: int| 0 <= j < n - 1 && (#[trigger] es[j]).1@.contains(v); assert(0 <= j < n && es[j].1@.contains(v)); }
            if es[n - 1].1@.contains(v) { assert(0 <= n - 1 < n && es[n - 1].1@.contains(v)); }
            if exists|j: int| 0 <= j < n && (#[trigger] es[j]).1@.contains(v) {
                let j = choose|j: int| 0 <= j < n && (#[trigger] es[j]).1@.contains(v);
                if j < n - 1 { assert(bfq_union(es, n - 1).contains(v)); }
            }
        }
    }
}
/// the loop of pop_until after n entries: exactly they were collected, all of them due
pub open spec fn bfq_pop_inv(es: Seq<BEnt>, until: ChainEpoch, keys: Seq<u64>, vals: Set<u64>) -> bool {
    &&& keys.len() <= es.len()
    &&& keys =~= ent_keys(es, keys.len() as int)
    &&& vals =~= bfq_union(es, keys.len() as int)
    &&& forall|j: int| 0 <= j < keys.len() ==> ((#[trigger] es[j]).0 as ChainEpoch) <= until
}
/// the traversal of a map stops at the first key that is not due
pub proof fn lemma_bfq_pop_done(m: QMap, es: Seq<BEnt>, until: ChainEpoch, keys: Seq<u64>, vals: Set<u64>)
    requires
        amt_entries(m, es), bfq_keys_ok(m), bfq_pop_inv(es, until, keys, vals),
        keys.len() < es.len() ==> (es[keys.len() as int].0 as ChainEpoch) > until,
    ensures
        keys.no_duplicates(),
        forall|k: u64| #[trigger] keys.to_set().contains(k) <==> m.dom().contains(k) && (k as ChainEpoch) <= until,
        forall|v: u64| #[trigger] vals.contains(v) <==> exists|k: u64| m.dom().contains(k) && (k as ChainEpoch) <= until && (#[trigger] m[k])@.contains(v),
{
    let n = keys.len() as int;
    lemma_bfq_union(es, n);
    assert forall|i: int, j: int| 0 <= i < keys.len() && 0 <= j < keys.len() && i != j implies keys[i] != keys[j] by {
        if i < j { assert(es[i].0 < es[j].0); } else { assert(es[j].0 < es[i].0); }
    }
    // every entry from the stopping point on is later than `until` (keys increase, and are epochs)
    assert forall|j: int| n <= j < es.len() implies ((#[trigger] es[j]).0 as ChainEpoch) > until by {
        if j > n { assert(es[n].0 < es[j].0); }
        assert(m.dom().contains(es[j].0) && m.dom().contains(es[n].0));
    }
    assert forall|k: u64| #[trigger] keys.to_set().contains(k) <==> m.dom().contains(k) && (k as ChainEpoch) <= until by {
        if keys.to_set().contains(k) {
            let j = choose|j: int| 0 <= j < keys.len() && keys[j] == k;
            assert(es[j].0 == k && m.dom().contains(es[j].0));
        }
        if m.dom().contains(k) && (k as ChainEpoch) <= until {
            let j = choose|j: int| 0 <= j < es.len() && #[trigger] es[j].0 == k;
            assert(j < n);
            assert(keys[j] == k);
        }
    }
    assert forall|v: u64| #[trigger] vals.contains(v) <==> exists|k: u64| m.dom().contains(k) && (k as ChainEpoch) <= until && (#[trigger] m[k])@.contains(v) by {
        if vals.contains(v) {
            let j = choose|j: int| 0 <= j < n && (#[trigger] es[j]).1@.contains(v);
            let k = es[j].0;
            assert(m.dom().contains(k) && (k as ChainEpoch) <= until && m[k]@.contains(v));
        }
        if exists|k: u64| m.dom().contains(k) && (k as ChainEpoch) <= until && (#[trigger] m[k])@.contains(v) {
            let k = choose|k: u64| m.dom().contains(k) && (k as ChainEpoch) <= until && (#[trigger] m[k])@.contains(v);
            let j = choose|j: int| 0 <= j < es.len() && #[trigger] es[j].0 == k;
            assert(j < n);
            assert(es[j].1@.contains(v));
        }
    }
}
/// what pop_until promises: `vals` is the union of the entries of `m0` that are due at `until`, `m1` is `m0` without exactly those entries
pub open spec fn bfq_pop_post(m0: QMap, m1: QMap, until: ChainEpoch, vals: Set<u64>, modified: bool) -> bool {
    // "pop_until(e) returns exactly the union of the entries with key <= e ..."
    &&& forall|v: u64| #[trigger] vals.contains(v) <==> exists|k: u64| m0.dom().contains(k) && (k as ChainEpoch) <= until && (#[trigger] m0[k])@.contains(v)
    // "... and removes exactly those": the later entries stay as they are
    &&& forall|k: u64| #[trigger] m1.dom().contains(k) <==> m0.dom().contains(k) && !((k as ChainEpoch) <= until)
    &&& forall|k: u64| m1.dom().contains(k) ==> #[trigger] m1[k] == m0[k]
    // the flag says whether an entry was removed
    &&& modified == exists|k: u64| m0.dom().contains(k) && (#[trigger] (k as ChainEpoch)) <= until
}
pub proof fn lemma_bfq_pop_post(m0: QMap, es: Seq<BEnt>, until: ChainEpoch, keys: Seq<u64>, vals: Set<u64>, m1: QMap, modified: bool)
    requires
        amt_entries(m0, es), bfq_keys_ok(m0), bfq_pop_inv(es, until, keys, bfq_union(es, keys.len() as int)),
        keys.len() < es.len() ==> (es[keys.len() as int].0 as ChainEpoch) > until,
        keys.len() > 0 ==> vals == bfq_union(es, keys.len() as int) && m1 == m0.remove_keys(keys.to_set()),
        keys.len() == 0 ==> vals == Set::<u64>::empty() && m1 == m0,
        modified == (keys.len() > 0),
    ensures bfq_pop_post(m0, m1, until, vals, modified),
{
    lemma_bfq_pop_done(m0, es, until, keys, bfq_union(es, keys.len() as int));
    if keys.len() == 0 {
        assert(keys.to_set() =~= Set::<u64>::empty());
        assert forall|k: u64| m0.dom().contains(k) implies !((k as ChainEpoch) <= until) by { assert(!keys.to_set().contains(k)); }
    } else {
        assert(keys.to_set().contains(keys[0]));
        assert(m0.dom().contains(keys[0]) && (keys[0] as ChainEpoch) <= until);
    }
}
//@ fn actors/miner/src/bitfield_queue.rs BitFieldQueue::pop_until sub0="self . amt . for_each_while=>let __vx_es = self.amt.vx_entries_sorted()?; let ghost __vx_ges = __vx_es@; let mut __vx_i: usize = 0; let mut epoch: u64 = 0; let __vx_d = BitField::new(); let mut bitfield: &BitField = &__vx_d; vx_done" sub1="| epoch , bitfield |=>while vx_next(&__vx_es, &mut __vx_i, &mut epoch, &mut bitfield) invariant_except_break __vx_i == popped_keys@.len(), invariant __vx_es@ == __vx_ges, amt_entries(old(self).amt.view(), __vx_ges), *self == *old(self), bfq_pop_inv(__vx_ges, until, popped_keys@, popped_values@), ensures bfq_pop_inv(__vx_ges, until, popped_keys@, popped_values@), popped_keys@.len() < __vx_ges.len() ==> (__vx_ges[popped_keys@.len() as int].0 as ChainEpoch) > until, decreases __vx_ges.len() - __vx_i" sub2="return Ok (false) ;=>break;" sub3="Ok (true)=>{}"
    requires bfq_keys_ok(old(self).amt.view()),
    ensures
        final(self).quant == old(self).quant,
        // "pop_until(e) returns exactly the union of the entries with key <= e and removes exactly those" (see bfq_pop_post)
        r.is_ok() ==> bfq_pop_post(old(self).amt.view(), final(self).amt.view(), until, r->Ok_0.0@, r->Ok_0.1),
        r.is_ok() ==> bfq_keys_ok(final(self).amt.view()),
        r.is_ok() && bfq_no_empty(old(self).amt.view()) ==> bfq_no_empty(final(self).amt.view()),
//@ before "if popped_keys . is_empty ()"
        let ghost __vx_keys = popped_keys@;
        proof { lemma_bfq_pop_done(old(self).amt.view(), __vx_ges, until, popped_keys@, popped_values@); }
//@ before "return Ok ((BitField :: new () , false))"
        proof { lemma_bfq_pop_post(old(self).amt.view(), __vx_ges, until, __vx_keys, Set::<u64>::empty(), self.amt.view(), false); }
//@ before "Ok ((popped_values , true))"
        proof { lemma_bfq_pop_post(old(self).amt.view(), __vx_ges, until, __vx_keys, popped_values@, self.amt.view(), true); }
//@ end

// ---------------- cut ----------------
/// `v` is what BitField::cut leaves of `s`: the members of `s` outside `c`, renumbered downwards — not empty, as many as `s \ c`
pub open spec fn bf_cut_ok(v: Set<u64>, s: Set<u64>, c: Set<u64>) -> bool { v == bf_cut(s, c) && !(v =~= Set::<u64>::empty()) && v.len() == s.difference(c).len() }
/// what `cut` promises: "removes exactly the given values [renumbering the rest as BitField::cut does] and deletes emptied entries"
pub open spec fn bfq_cut_post(m0: QMap, m1: QMap, c: Set<u64>) -> bool {
    &&& forall|k: u64| #[trigger] m1.dom().contains(k) <==> m0.dom().contains(k) && !m0[k]@.subset_of(c)
    &&& forall|k: u64| m1.dom().contains(k) ==> bf_cut_ok((#[trigger] m1[k])@, m0[k]@, c)
}
/// the loop of `cut` after the first n keys: visited entries that keep a member are rewritten, emptied ones are listed in `rem`, the rest is untouched
pub open spec fn bfq_cut_inv(m0: QMap, m: QMap, ks: Seq<u64>, n: int, c: Set<u64>, rem: Seq<u64>) -> bool {
    &&& 0 <= n <= ks.len()
    &&& m.dom() =~= m0.dom()
    &&& forall|j: int| n <= j < ks.len() ==> m[#[trigger] ks[j]] == m0[ks[j]]
    &&& forall|j: int| 0 <= j < n && !m0[#[trigger] ks[j]]@.subset_of(c) ==> bf_cut_ok(m[ks[j]]@, m0[ks[j]]@, c)
    &&& forall|k: u64| #[trigger] rem.contains(k) <==> exists|j: int| 0 <= j < n && #[trigger] ks[j] == k && m0[k]@.subset_of(c)
    &&& rem.no_duplicates()
}
pub proof fn lemma_bfq_cut_step(m0: QMap, mb: QMap, ma: QMap, ks: Seq<u64>, n: int, c: Set<u64>, remb: Seq<u64>, rema: Seq<u64>)
    requires
        amt_keys(m0, ks), bfq_cut_inv(m0, mb, ks, n, c, remb), n < ks.len(),
        (m0[ks[n]]@.subset_of(c) && ma =~= mb && rema == remb.push(ks[n]))
            || (!m0[ks[n]]@.subset_of(c) && ma =~= mb.insert(ks[n], ma[ks[n]]) && bf_cut_ok(ma[ks[n]]@, m0[ks[n]]@, c) && rema == remb),
    ensures bfq_cut_inv(m0, ma, ks, n + 1, c, rema),
{
    let k = ks[n];
    assert forall|j: int| n + 1 <= j < ks.len() implies ma[#[trigger] ks[j]] == m0[ks[j]] by { assert(ks[n] < ks[j]); }
    assert forall|j: int| 0 <= j < n + 1 && !m0[#[trigger] ks[j]]@.subset_of(c) implies bf_cut_ok(ma[ks[j]]@, m0[ks[j]]@, c) by { if j < n { assert(ks[j] < ks[n]); } }
    assert(!remb.contains(k)) by {
        if remb.contains(k) { let j = choose|j: int| 0 <= j < n && #[trigger] ks[j] == k && m0[k]@.subset_of(c); assert(ks[j] < ks[n]); }
    }
    assert forall|q: u64| #[trigger] rema.contains(q) <==> exists|j: int| 0 <= j < n + 1 && #[trigger] ks[j] == q && m0[q]@.subset_of(c) by {
        if rema.contains(q) {
            let i = choose|i: int| 0 <= i < rema.len() && rema[i] == q;
            if i < remb.len() { assert(remb[i] == q); assert(remb.contains(q)); let j = choose|j: int| 0 <= j < n && #[trigger] ks[j] == q && m0[q]@.subset_of(c); assert(0 <= j < n + 1 && ks[j] == q); }
            else { assert(q == k); assert(0 <= n < n + 1 && ks[n] == q); }
        }
        if exists|j: int| 0 <= j < n + 1 && #[trigger] ks[j] == q && m0[q]@.subset_of(c) {
            let j = choose|j: int| 0 <= j < n + 1 && #[trigger] ks[j] == q && m0[q]@.subset_of(c);
            if j < n { assert(remb.contains(q)); let i = choose|i: int| 0 <= i < remb.len() && remb[i] == q; assert(rema[i] == q); }
            else { assert(rema[remb.len() as int] == q); }
        }
    }
    if m0[k]@.subset_of(c) {
        assert forall|x: int, y: int| 0 <= x < rema.len() && 0 <= y < rema.len() && x != y implies rema[x] != rema[y] by {
            if x == remb.len() { assert(rema[y] == remb[y]); if rema[y] == k { assert(remb.contains(k)); } }
            else if y == remb.len() { assert(rema[x] == remb[x]); if rema[x] == k { assert(remb.contains(k)); } }
            else { assert(rema[x] == remb[x] && rema[y] == remb[y]); }
        }
    }
}
pub proof fn lemma_bfq_cut_done(m0: QMap, m: QMap, ks: Seq<u64>, c: Set<u64>, rem: Seq<u64>, m1: QMap)
    requires amt_keys(m0, ks), bfq_cut_inv(m0, m, ks, ks.len() as int, c, rem), m1 == m.remove_keys(rem.to_set()),
    ensures bfq_cut_post(m0, m1, c),
{
    assert forall|k: u64| #[trigger] m1.dom().contains(k) <==> m0.dom().contains(k) && !m0[k]@.subset_of(c) by {
        if m0.dom().contains(k) {
            let j = choose|j: int| 0 <= j < ks.len() && #[trigger] ks[j] == k;
            if m0[k]@.subset_of(c) { assert(rem.contains(k)); }
            if rem.to_set().contains(k) { assert(rem.contains(k)); }
        }
    }
    assert forall|k: u64| m1.dom().contains(k) implies bf_cut_ok((#[trigger] m1[k])@, m0[k]@, c) by {
        let j = choose|j: int| 0 <= j < ks.len() && #[trigger] ks[j] == k;
    }
}

//@ fn actors/miner/src/bitfield_queue.rs BitFieldQueue::cut sub0="? ; Ok (())=>?; proof { lemma_bfq_cut_done(old(self).amt.view(), __vx_gm, __vx_gks, to_cut@, __vx_grem, self.amt.view()); } Ok::<(), AnyhowError>(())" sub1="self . amt . for_each_mut=>let __vx_ks = self.amt.vx_keys_sorted()?; let ghost __vx_gks = __vx_ks@; let ghost mut __vx_gm = self.amt.view(); let ghost mut __vx_grem = epochs_to_remove@; vx_done" sub2="| epoch , bitfield |=>for epoch in it: __vx_ks invariant it.seq() == __vx_gks, amt_keys(old(self).amt.view(), __vx_gks), self.quant == old(self).quant, __vx_gm == self.amt.view(), __vx_grem == epochs_to_remove@, bfq_cut_inv(old(self).amt.view(), self.amt.view(), __vx_gks, it.index@ as int, to_cut@, epochs_to_remove@)" sub3="Ok (())=>{ proof { lemma_bfq_cut_step(old(self).amt.view(), __vx_gm, self.amt.view(), __vx_gks, it.index@ as int, to_cut@, __vx_grem, epochs_to_remove@); __vx_gm = self.amt.view(); __vx_grem = epochs_to_remove@; } }" sub4="bitfield . cut=>(&mut self.amt.vx_get_mut(epoch)).cut" sub5="* * bitfield=>**(&mut self.amt.vx_get_mut(epoch))"
    ensures
        final(self).quant == old(self).quant,
        // every entry loses exactly the cut values (the remaining ones are renumbered as BitField::cut does); emptied entries are deleted
        r.is_ok() ==> bfq_cut_post(old(self).amt.view(), final(self).amt.view(), to_cut@),
        r.is_ok() && bfq_keys_ok(old(self).amt.view()) ==> bfq_keys_ok(final(self).amt.view()),
        r.is_ok() ==> bfq_no_empty(final(self).amt.view()),
//@ end

// ---------------- add_many_to_queue_values ----------------
//@ include prelude/miner_expq_pairs.rs
pub open spec fn pairs_hit(qs: Seq<EpochVal>, p: int, k: u64, v: u64) -> bool { exists|i: int| 0 <= i < p && (#[trigger] qs[i]).0 == k && qs[i].1 == v }
/// the queue after the first p (sorted, distinct, quantised) pairs were added
pub open spec fn bfq_many(m0: QMap, m: QMap, qs: Seq<EpochVal>, p: int) -> bool {
    &&& forall|k: u64, v: u64| #![trigger bfq_at(m, k).contains(v)] bfq_at(m, k).contains(v) <==> bfq_at(m0, k).contains(v) || pairs_hit(qs, p, k, v)
    &&& forall|k: u64| m0.dom().contains(k) ==> #[trigger] m.dom().contains(k)
    &&& (bfq_keys_ok(m0) ==> bfq_keys_ok(m)) && (bfq_no_empty(m0) ==> bfq_no_empty(m))
}
/// what add_many_to_queue_values promises: every (epoch, value) lands under quantize_up(epoch) and nowhere else; existing entries only grow
pub open spec fn bfq_many_post(m0: QMap, m1: QMap, q: QuantSpec, values: Seq<EpochVal>) -> bool {
    &&& forall|k: u64, v: u64| #![trigger bfq_at(m1, k).contains(v)] bfq_at(m1, k).contains(v) <==> bfq_at(m0, k).contains(v)
            || exists|i: int| 0 <= i < values.len() && quantize_up_spec(q, (#[trigger] values[i]).0 as int) == k && values[i].1 == v
    &&& forall|k: u64| m0.dom().contains(k) ==> #[trigger] m1.dom().contains(k)
    &&& (bfq_keys_ok(m0) ==> bfq_keys_ok(m1)) && (bfq_no_empty(m0) ==> bfq_no_empty(m1))
}
/// `qs` holds exactly the quantised images of `values`, each once, in increasing order; every epoch in it is a fixed point of quantize_up
pub open spec fn pairs_image(q: QuantSpec, values: Seq<EpochVal>, qs: Seq<EpochVal>) -> bool {
    &&& forall|i: int, j: int| 0 <= i < j < qs.len() ==> pair_lt(#[trigger] qs[i], #[trigger] qs[j])
    &&& forall|x: EpochVal| #[trigger] qs.contains(x) <==> exists|i: int| 0 <= i < values.len() && x.0 == quantize_up_spec(q, (#[trigger] values[i]).0 as int) && x.1 == values[i].1
    &&& forall|i: int| 0 <= i < qs.len() ==> quantize_up_spec(q, (#[trigger] qs[i]).0 as int) == qs[i].0 && ep_ok(qs[i].0 as int)
}
pub proof fn lemma_sorted_dedup(s: Seq<EpochVal>)
    requires forall|i: int, j: int| 0 <= i < j < s.len() ==> pair_le(#[trigger] s[i], #[trigger] s[j]),
    ensures
        forall|i: int, j: int| 0 <= i < j < seq_dedup(s).len() ==> pair_lt(#[trigger] seq_dedup(s)[i], #[trigger] seq_dedup(s)[j]),
        forall|x: EpochVal| #[trigger] seq_dedup(s).contains(x) <==> s.contains(x),
        s.len() > 0 ==> seq_dedup(s).len() > 0 && seq_dedup(s).last() == s.last(),
    decreases s.len()
{
    let d = seq_dedup(s);
    if s.len() <= 1 {
    } else {
        let t = s.drop_last();
        lemma_sorted_dedup(t);
        let dt = seq_dedup(t);
        assert(t.last() == s[s.len() - 2]);
        assert forall|x: EpochVal| #[trigger] d.contains(x) <==> s.contains(x) by {
            if d.contains(x) {
                let i = choose|i: int| 0 <= i < d.len() && d[i] == x;
                if i < dt.len() { assert(dt[i] == x); assert(dt.contains(x)); assert(t.contains(x)); let j = choose|j: int| 0 <= j < t.len() && t[j] == x; assert(s[j] == x); }
                else { assert(x == s.last()); assert(s[s.len() - 1] == x); }
            }
            if s.contains(x) {
                let j = choose|j: int| 0 <= j < s.len() && s[j] == x;
                if j < t.len() { assert(t[j] == x); assert(t.contains(x)); assert(dt.contains(x)); let i = choose|i: int| 0 <= i < dt.len() && dt[i] == x; assert(d[i] == x); }
                else if s[s.len() - 2] == s.last() { assert(t[t.len() - 1] == x); assert(t.contains(x)); assert(dt.contains(x)); }
                else { assert(d[dt.len() as int] == x); }
            }
        }
        if s[s.len() - 2] != s.last() {
            assert forall|i: int, j: int| 0 <= i < j < d.len() implies pair_lt(#[trigger] d[i], #[trigger] d[j]) by {
                if j == dt.len() {
                    // d[i] is an element of t, hence <= t.last() < s.last()
                    assert(dt.contains(dt[i])); assert(t.contains(d[i]));
                    let a = choose|a: int| 0 <= a < t.len() && t[a] == d[i];
                    assert(pair_le(s[a], s[s.len() - 2]) || a == s.len() - 2);
                    assert(pair_le(s[s.len() - 2], s[s.len() - 1]));
                } else { assert(d[i] == dt[i] && d[j] == dt[j]); }
            }
        }
    }
}
pub proof fn lemma_pairs_image(q: QuantSpec, values: Seq<EpochVal>, qs0: Seq<EpochVal>, qs1: Seq<EpochVal>)
    requires
        q_ok(q), forall|i: int| 0 <= i < values.len() ==> small((#[trigger] values[i]).0 as int),
        qs0.len() == values.len(), forall|i: int| 0 <= i < qs0.len() ==> (#[trigger] qs0[i]).0 == quantize_up_spec(q, values[i].0 as int) && qs0[i].1 == values[i].1,
        qs1.to_multiset() == qs0.to_multiset(), forall|i: int, j: int| 0 <= i < j < qs1.len() ==> pair_le(#[trigger] qs1[i], #[trigger] qs1[j]),
    ensures pairs_image(q, values, seq_dedup(qs1)),
{
    let qs = seq_dedup(qs1);
    lemma_sorted_dedup(qs1);
    qs0.to_multiset_ensures();
    qs1.to_multiset_ensures();
    assert forall|x: EpochVal| #[trigger] qs.contains(x) <==> exists|i: int| 0 <= i < values.len() && x.0 == quantize_up_spec(q, (#[trigger] values[i]).0 as int) && x.1 == values[i].1 by {
        assert(qs.contains(x) <==> qs1.contains(x));
        assert(qs1.contains(x) <==> qs1.to_multiset().count(x) > 0);
        assert(qs0.contains(x) <==> qs0.to_multiset().count(x) > 0);
        if qs0.contains(x) { let i = choose|i: int| 0 <= i < qs0.len() && qs0[i] == x; assert(x.0 == quantize_up_spec(q, values[i].0 as int) && x.1 == values[i].1); }
        if exists|i: int| 0 <= i < values.len() && x.0 == quantize_up_spec(q, (#[trigger] values[i]).0 as int) && x.1 == values[i].1 {
            let i = choose|i: int| 0 <= i < values.len() && x.0 == quantize_up_spec(q, (#[trigger] values[i]).0 as int) && x.1 == values[i].1;
            assert(qs0[i] == x);
        }
    }
    assert forall|i: int| 0 <= i < qs.len() implies quantize_up_spec(q, (#[trigger] qs[i]).0 as int) == qs[i].0 && ep_ok(qs[i].0 as int) by {
        assert(qs.contains(qs[i]));
        let j = choose|j: int| 0 <= j < values.len() && qs[i].0 == quantize_up_spec(q, (#[trigger] values[j]).0 as int) && qs[i].1 == values[j].1;
        lemma_quantize_idem(q, values[j].0 as int);
        let off = rust_rem(q.offset as int, q.unit as int);
        lemma_trunc(q.offset as int, q.unit as int);
        lemma_trunc(values[j].0 - off, q.unit as int);
    }
}
pub proof fn lemma_bfq_many_step(m0: QMap, mb: QMap, ma: QMap, qs: Seq<EpochVal>, p: int, k: int, e: ChainEpoch, run: Seq<u64>)
    requires
        bfq_many(m0, mb, qs, p), 0 <= p, 1 <= k, p + k <= qs.len(), e >= 0,
        forall|i: int| p <= i < p + k ==> (#[trigger] qs[i]).0 == e,
        run == Seq::new(k as nat, |i: int| qs[p + i].1),
        bfq_added(mb, ma, e as u64, run.to_set()),
    ensures bfq_many(m0, ma, qs, p + k),
{
    let eu = e as u64;
    assert(run.to_set().contains(run[0]));
    assert forall|kk: u64, v: u64| #![trigger bfq_at(ma, kk).contains(v)] bfq_at(ma, kk).contains(v) <==> bfq_at(m0, kk).contains(v) || pairs_hit(qs, p + k, kk, v) by {
        assert(bfq_at(mb, kk).contains(v) <==> bfq_at(m0, kk).contains(v) || pairs_hit(qs, p, kk, v));
        if kk != eu { if mb.dom().contains(kk) { assert(ma[kk] == mb[kk]); } assert(bfq_at(ma, kk) == bfq_at(mb, kk)); }
        else { assert(bfq_at(ma, kk).contains(v) <==> bfq_at(mb, kk).contains(v) || run.to_set().contains(v)); }
        if pairs_hit(qs, p, kk, v) { let i = choose|i: int| 0 <= i < p && (#[trigger] qs[i]).0 == kk && qs[i].1 == v; assert(0 <= i < p + k && qs[i].0 == kk && qs[i].1 == v); }
        if kk == eu && run.to_set().contains(v) { let i = choose|i: int| 0 <= i < run.len() && run[i] == v; assert(qs[p + i].0 == kk && qs[p + i].1 == v); }
        if pairs_hit(qs, p + k, kk, v) {
            let i = choose|i: int| 0 <= i < p + k && (#[trigger] qs[i]).0 == kk && qs[i].1 == v;
            if i >= p { assert(kk == eu); assert(run[i - p] == v); assert(run.to_set().contains(v)); }
        }
    }
    assert forall|kk: u64| m0.dom().contains(kk) implies #[trigger] ma.dom().contains(kk) by { assert(mb.dom().contains(kk)); }
    if bfq_keys_ok(m0) { assert(bfq_keys_ok(ma)); }
    if bfq_no_empty(m0) {
        assert forall|kk: u64| ma.dom().contains(kk) implies !(#[trigger] ma[kk]@ =~= Set::<u64>::empty()) by {
            if kk == eu { assert(ma[kk]@.contains(run[0])); } else { assert(mb.dom().contains(kk)); assert(ma[kk] == mb[kk]); }
        }
    }
}
pub proof fn lemma_bfq_many_done(m0: QMap, m1: QMap, q: QuantSpec, values: Seq<EpochVal>, qs: Seq<EpochVal>)
    requires
        pairs_image(q, values, qs), bfq_many(m0, m1, qs, qs.len() as int),
        q_ok(q), forall|i: int| 0 <= i < values.len() ==> small((#[trigger] values[i]).0 as int),
    ensures bfq_many_post(m0, m1, q, values),
{
    assert forall|k: u64, v: u64| #![trigger bfq_at(m1, k).contains(v)] bfq_at(m1, k).contains(v) <==> bfq_at(m0, k).contains(v)
            || exists|i: int| 0 <= i < values.len() && quantize_up_spec(q, (#[trigger] values[i]).0 as int) == k && values[i].1 == v by {
        let x: EpochVal = (k as ChainEpoch, v);
        if pairs_hit(qs, qs.len() as int, k, v) {
            let i = choose|i: int| 0 <= i < qs.len() && (#[trigger] qs[i]).0 == k && qs[i].1 == v;
            assert(qs.contains(qs[i]));
            let j = choose|j: int| 0 <= j < values.len() && qs[i].0 == quantize_up_spec(q, (#[trigger] values[j]).0 as int) && qs[i].1 == values[j].1;
            assert(quantize_up_spec(q, values[j].0 as int) == k && values[j].1 == v);
        }
        if exists|i: int| 0 <= i < values.len() && quantize_up_spec(q, (#[trigger] values[i]).0 as int) == k && values[i].1 == v {
            let i = choose|i: int| 0 <= i < values.len() && quantize_up_spec(q, (#[trigger] values[i]).0 as int) == k && values[i].1 == v;
            assert(k <= 0x7fff_ffff_ffff_ffff) by {
                let off = rust_rem(q.offset as int, q.unit as int);
                lemma_trunc(q.offset as int, q.unit as int);
                lemma_trunc(values[i].0 - off, q.unit as int);
            }
            assert(x.0 == quantize_up_spec(q, values[i].0 as int) && x.1 == values[i].1);
            assert(qs.contains(x));
            let a = choose|a: int| 0 <= a < qs.len() && qs[a] == x;
            assert(qs[a].0 == k && qs[a].1 == v);
        }
    }
}

//@ fn actors/miner/src/bitfield_queue.rs BitFieldQueue::add_many_to_queue_values sigsub0="impl IntoIterator < Item = (ChainEpoch , u64) >=>Vec<(ChainEpoch, u64)>" sub0="values . into_iter () . map (| (raw_epoch , value) | (self . quant . quantize_up (raw_epoch) , value)) . collect ()=>vx_quantize_pairs(&self.quant, values)" sub1="quantized_values . sort_unstable ()=>vx_sort_unstable_pairs(&mut quantized_values)" sub2="quantized_values . dedup ()=>vx_dedup_pairs(&mut quantized_values)" sub3="quantized_values . into_iter () . peekable ()=>vx_peekable_pairs(quantized_values)" sub4="while let Some (& (epoch , _)) = iter . peek ()=>let mut epoch: ChainEpoch = 0; while vx_peek_epoch(&mut iter, &mut epoch)" sub5="iter . peeking_take_while (| & (e , _) | e == epoch) . map (| (_ , v) | v)=>{ let __vx_run = vx_take_epoch_run(&mut iter, epoch); proof { __vx_grun = __vx_run@; } __vx_run }"
    requires
        q_ok(old(self).quant),
        forall|i: int| 0 <= i < values@.len() ==> small((#[trigger] values@[i]).0 as int),
    ensures
        final(self).quant == old(self).quant,
        r.is_ok() ==> bfq_many_post(old(self).amt.view(), final(self).amt.view(), old(self).quant, values@),
//@ entry
        let ghost __vx_vals = values@;
        let ghost mut __vx_p: int = 0;
        let ghost mut __vx_grun: Seq<u64> = Seq::empty();
//@ before "quantized_values . sort_unstable ()"
        let ghost __vx_qs0 = quantized_values@;
//@ before "let mut iter ="
        let ghost __vx_qs = quantized_values@;
        proof {
            lemma_pairs_image(self.quant, __vx_vals, __vx_qs0, __vx_qs1);
            assert(__vx_qs.skip(0) =~= __vx_qs);
        }
//@ before "quantized_values . dedup ()"
        let ghost __vx_qs1 = quantized_values@;
//@ loop 0
            invariant
                self.quant == old(self).quant, q_ok(self.quant), pairs_image(self.quant, __vx_vals, __vx_qs),
                0 <= __vx_p <= __vx_qs.len(), iter@ == __vx_qs.skip(__vx_p),
                bfq_many(old(self).amt.view(), self.amt.view(), __vx_qs, __vx_p),
            decreases __vx_qs.len() - __vx_p,
//@ loopstart 0
            let ghost __vx_mb = self.amt.view();
            let ghost __vx_itb = iter@;
//@ loopend 0
            proof {
                let k = choose|k: int| pairs_run_at(__vx_itb, epoch, k) && __vx_grun == Seq::new(k as nat, |i: int| __vx_itb[i].1) && iter@ == __vx_itb.skip(k);
                assert(__vx_itb[0] == __vx_qs[__vx_p]);
                assert(k >= 1);
                assert forall|i: int| __vx_p <= i < __vx_p + k implies (#[trigger] __vx_qs[i]).0 == epoch by { assert(__vx_itb[i - __vx_p] == __vx_qs[i]); }
                assert(__vx_grun =~= Seq::new(k as nat, |i: int| __vx_qs[__vx_p + i].1)) by {
                    assert forall|i: int| 0 <= i < k implies __vx_itb[i].1 == __vx_qs[__vx_p + i].1 by { }
                }
                assert(__vx_grun.len() > 0);
                lemma_bfq_many_step(old(self).amt.view(), __vx_mb, self.amt.view(), __vx_qs, __vx_p, k, epoch, __vx_grun);
                assert(__vx_qs.skip(__vx_p).skip(k) =~= __vx_qs.skip(__vx_p + k));
                __vx_p = __vx_p + k;
            }
//@ before "Ok (())"
        proof { lemma_bfq_many_done(old(self).amt.view(), self.amt.view(), self.quant, __vx_vals, __vx_qs); }
//@ end
} // verus!
fn main() {}
