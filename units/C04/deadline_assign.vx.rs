// unit: miner sector-to-deadline ASSIGNMENT (actors/miner/src/deadline_assignment.rs) — C04 "every sector belongs to exactly one partition of
// exactly one deadline": the step that decides WHICH deadline each new sector goes to.
// Under contract (real bodies from /repo): div_rounding_up, DeadlineAssignmentInfo::{partitions_after_assignment,
// compact_partitions_after_assignment, is_full_now, max_partitions_reached} (exact arithmetic), and assign_deadlines in TWO lifted regions that
// together are all its top-level statements: assign_deadlines_heap (`let mut heap = ...; assert!(!heap.is_empty());`) and assign_deadlines_loop
// (`let mut changes = ...; for sector in sectors {...}; Ok(changes)`). assign_deadlines_whole (template text: the sequencing of the two) carries the
// TOP-LEVEL contract: the buckets' multiset union is the input (each sector in exactly one bucket), only Some deadlines receive sectors, a
// receiving deadline ends with <= max_partitions * partition_size sectors, one bucket per deadline of the proving period.
// Shape: the BinaryHeap is an abstract multiset (prelude/miner_deadline_assign_heap.rs); `peek_mut` hands out SOME element, so everything proved
// holds for ANY comparator — the comparator `cmp` and Entry's Ord impl are NOT under contract (see the report: closures given to
// Ordering::then_with cannot be specified without replacing their text; Entry and its impls are item statements inside the function).
// Substitutions (tool limits, listed in the evidence): in assign_deadlines_heap the adapter skeleton
// `deadlines.iter().enumerate().filter_map(|(index, deadline)| deadline.as_ref().map(|dl| (index, dl))).map(|(index, deadline)| E).collect()`
// is rewritten to the equivalent `while index < deadlines.len() { match deadlines[index].as_ref() { Some(deadline) => heap.push(E), None => {} } index += 1 }`
// — the struct literal E stays the real text; any edit of the skeleton is a lost anchor (exit 2). `assert!(c)` -> vx_assert(c) (requires c).
//@ include prelude/core.rs
//@ include prelude/ipld.rs
//@ include prelude/bitfield.rs
//@ include prelude/rt.rs
//@ include prelude/policy.rs
verus! {
//@ item actors/miner/src/partition_state.rs PowerPair
//@ item actors/miner/src/deadline_state.rs Deadline
//@ item actors/miner/src/deadline_assignment.rs DeadlineAssignmentInfo
}
//@ include prelude/miner_deadline_assign_heap.rs
verus! {

// ======================= exact arithmetic of the helpers =======================
/// ceil(a / b) for b > 0
spec fn da_ceil_div(a: int, b: int) -> int { (a + b - 1) / b }
proof fn lemma_da_ceil_div(a: int, b: int)
    requires a >= 0, b > 0
    ensures da_ceil_div(a, b) == a / b + (if a % b == 0 { 0int } else { 1int }), a / b >= 0
{
    vstd::arithmetic::div_mod::lemma_fundamental_div_mod(a, b);
    vstd::arithmetic::div_mod::lemma_mod_bound(a, b);
    vstd::arithmetic::div_mod::lemma_div_pos_is_pos(a, b);
    let q = a / b; let m = a % b;
    assert(a == b * q + m);
    if m == 0 {
        assert(a + b - 1 == q * b + (b - 1)) by (nonlinear_arith) requires a == b * q + m, m == 0;
        vstd::arithmetic::div_mod::lemma_fundamental_div_mod_converse(a + b - 1, b, q, b - 1);
    } else {
        assert(a + b - 1 == (q + 1) * b + (m - 1)) by (nonlinear_arith) requires a == b * q + m;
        vstd::arithmetic::div_mod::lemma_fundamental_div_mod_converse(a + b - 1, b, q + 1, m - 1);
    }
}

//@ fn actors/miner/src/deadline_assignment.rs div_rounding_up
    requires
        divisor > 0,                                   // `/` panics on 0
    ensures
        r as int == da_ceil_div(dividend as int, divisor as int),
        r as int == dividend as int / divisor as int + (if dividend as int % divisor as int == 0 { 0int } else { 1int }),
//@ entry
        proof {
            axiom_u64_from_bool();
            lemma_da_ceil_div(dividend as int, divisor as int);
            vstd::arithmetic::div_mod::lemma_fundamental_div_mod(dividend as int, divisor as int);
            vstd::arithmetic::div_mod::lemma_mod_bound(dividend as int, divisor as int);
            if dividend as int % divisor as int != 0 {
                // quotient + 1 cannot overflow: a non-zero remainder means divisor >= 2
                assert(divisor >= 2);
                assert(dividend as int / divisor as int <= dividend as int / 2) by {
                    vstd::arithmetic::div_mod::lemma_div_is_ordered_by_denominator(dividend as int, 2, divisor as int);
                }
            }
        }
//@ end

//@ fn actors/miner/src/deadline_assignment.rs DeadlineAssignmentInfo::partitions_after_assignment
    requires
        partition_size > 0,
        self.total_sectors < u64::MAX,                 // `total_sectors + 1` must not overflow
    ensures
        // partitions needed for the sectors already there PLUS the one being assigned, rounded UP
        r as int == da_ceil_div(self.total_sectors + 1, partition_size as int),
//@ end
//@ fn actors/miner/src/deadline_assignment.rs DeadlineAssignmentInfo::compact_partitions_after_assignment
    requires
        partition_size > 0,
        self.live_sectors < u64::MAX,
    ensures
        r as int == da_ceil_div(self.live_sectors + 1, partition_size as int),
//@ end
//@ fn actors/miner/src/deadline_assignment.rs DeadlineAssignmentInfo::is_full_now
    ensures
        // every partition of the deadline is full (no open partition): the total is a multiple of the partition size
        partition_size > 0 ==> r == (self.total_sectors as int % partition_size as int == 0),
        partition_size == 0 ==> r == (self.total_sectors == 0),
//@ end
//@ fn actors/miner/src/deadline_assignment.rs DeadlineAssignmentInfo::max_partitions_reached
    requires
        partition_size * max_partitions <= u64::MAX,   // the product is computed in u64
    ensures
        r == (self.total_sectors as int >= partition_size as int * max_partitions as int),
//@ end

// ======================= the assignment loop of assign_deadlines =======================
/// the buckets as sequences
spec fn da_cv(c: Seq<Vec<SectorOnChainInfo>>) -> Seq<Seq<SectorOnChainInfo>> { Seq::new(c.len(), |i: int| c[i]@) }
/// all sectors of all buckets, with multiplicity: the multiset union of the returned Vec<Vec<SectorOnChainInfo>>
spec fn da_flat(c: Seq<Seq<SectorOnChainInfo>>) -> Multiset<SectorOnChainInfo>
    decreases c.len()
{
    if c.len() == 0 { Multiset::empty() } else { da_flat(c.drop_last()).add(c.last().to_multiset()) }
}
/// the heap entry `e` describes deadline `e.info.index`: an assignable (Some) deadline, with its counters advanced by what was assigned so far
spec fn da_entry_ok(e: Entry, d: Seq<Option<Deadline>>, c: Seq<Seq<SectorOnChainInfo>>, ps: u64) -> bool {
    let i = e.info.index as int;
    &&& i < d.len() && i < c.len() && d[i].is_some()
    &&& e.partition_size == ps
    &&& e.info.total_sectors as int == d[i]->Some_0.total_sectors + c[i].len()
    &&& e.info.live_sectors as int == d[i]->Some_0.live_sectors + c[i].len()
}
/// every entry of the heap describes an assignable deadline; no entry occurs twice (hence no deadline has two entries)
spec fn da_heap_ok(h: Multiset<Entry>, d: Seq<Option<Deadline>>, c: Seq<Seq<SectorOnChainInfo>>, ps: u64) -> bool {
    &&& forall|e: Entry| #[trigger] h.count(e) > 0 ==> da_entry_ok(e, d, c, ps)
    &&& forall|e: Entry| #[trigger] h.count(e) <= 1
}
/// what the buckets satisfy at any time: only assignable deadlines received sectors, and none beyond `ps * maxp` sectors in total
spec fn da_buckets_ok(d: Seq<Option<Deadline>>, c: Seq<Seq<SectorOnChainInfo>>, ps: u64, maxp: u64) -> bool {
    forall|i: int| 0 <= i < c.len() && (#[trigger] c[i]).len() > 0 ==>
        i < d.len() && d[i].is_some() && d[i]->Some_0.total_sectors + c[i].len() <= ps as int * maxp as int
}
proof fn lemma_da_flat_empty(c: Seq<Seq<SectorOnChainInfo>>)
    requires forall|i: int| 0 <= i < c.len() ==> (#[trigger] c[i]).len() == 0
    ensures da_flat(c) =~= Multiset::<SectorOnChainInfo>::empty()
    decreases c.len()
{
    broadcast use vstd::seq_lib::group_to_multiset_ensures;
    if c.len() > 0 {
        lemma_da_flat_empty(c.drop_last());
        assert(c.last() =~= Seq::<SectorOnChainInfo>::empty());
    }
}
/// one more sector in bucket k: the union gains exactly that sector
proof fn lemma_da_flat_push(c0: Seq<Seq<SectorOnChainInfo>>, c1: Seq<Seq<SectorOnChainInfo>>, k: int, x: SectorOnChainInfo)
    requires
        0 <= k < c0.len(), c1.len() == c0.len(),
        forall|j: int| 0 <= j < c0.len() && j != k ==> (#[trigger] c1[j]) == c0[j],
        c1[k] == c0[k].push(x),
    ensures da_flat(c1) =~= da_flat(c0).insert(x)
    decreases c0.len()
{
    broadcast use vstd::seq_lib::group_to_multiset_ensures;
    let n = c0.len() - 1;
    if k == n {
        lemma_da_flat_same(c0.drop_last(), c1.drop_last());
    } else {
        lemma_da_flat_push(c0.drop_last(), c1.drop_last(), k, x);
        assert(c1.last() == c0.last());
    }
}
proof fn lemma_da_flat_same(c0: Seq<Seq<SectorOnChainInfo>>, c1: Seq<Seq<SectorOnChainInfo>>)
    requires c1.len() == c0.len(), forall|j: int| 0 <= j < c0.len() ==> (#[trigger] c1[j]) == c0[j]
    ensures da_flat(c1) == da_flat(c0)
    decreases c0.len()
{
    if c0.len() > 0 { lemma_da_flat_same(c0.drop_last(), c1.drop_last()); assert(c1.last() == c0.last()); }
}
/// one iteration: the top entry e0 (whichever it is) becomes e1 = e0 with both counters + 1, and x is pushed to bucket e0.info.index
proof fn lemma_da_step(h0: Multiset<Entry>, h1: Multiset<Entry>, e0: Entry, e1: Entry, d: Seq<Option<Deadline>>,
    c0: Seq<Seq<SectorOnChainInfo>>, c1: Seq<Seq<SectorOnChainInfo>>, ps: u64, maxp: u64, x: SectorOnChainInfo)
    requires
        da_heap_ok(h0, d, c0, ps), da_buckets_ok(d, c0, ps, maxp), h0.count(e0) > 0, h1 == h0.remove(e0).insert(e1),
        e1.partition_size == e0.partition_size, e1.info.index == e0.info.index,
        e1.info.total_sectors == e0.info.total_sectors + 1, e1.info.live_sectors == e0.info.live_sectors + 1,
        (e0.info.total_sectors as int) < ps as int * maxp as int,
        c1.len() == c0.len(),
        forall|j: int| 0 <= j < c0.len() && j != e0.info.index ==> (#[trigger] c1[j]) == c0[j],
        c1[e0.info.index as int] == c0[e0.info.index as int].push(x),
    ensures
        da_heap_ok(h1, d, c1, ps), da_buckets_ok(d, c1, ps, maxp), h1.len() > 0,
        da_flat(c1) =~= da_flat(c0).insert(x),
{
    let k = e0.info.index as int;
    assert(da_entry_ok(e0, d, c0, ps));
    lemma_da_flat_push(c0, c1, k, x);
    assert forall|e: Entry| h1.count(e) > 0 implies da_entry_ok(e, d, c1, ps) by {
        if e != e1 {
            assert(h0.count(e) > 0 && e != e0);
            assert(da_entry_ok(e, d, c0, ps));
            // a different entry describes a different deadline (entries are determined by their index)
            if e.info.index == e0.info.index { assert(e.info == e0.info); assert(e == e0); }
        }
    }
    assert forall|e: Entry| h1.count(e) <= 1 by {
        if e == e1 {
            if h0.count(e1) > 0 { assert(da_entry_ok(e1, d, c0, ps)); assert(false); }
        }
    }
    assert(h1.count(e1) > 0);
    if h1.len() == 0 { vstd::multiset::lemma_multiset_empty_len(h1); assert(false); }
    assert forall|i: int| 0 <= i < c1.len() && (#[trigger] c1[i]).len() > 0 implies
        i < d.len() && d[i].is_some() && d[i]->Some_0.total_sectors + c1[i].len() <= ps as int * maxp as int by {
        if i != k { assert(c1[i] == c0[i]); assert(c0[i].len() > 0); }
    }
}

//@ fn actors/miner/src/deadline_assignment.rs assign_deadlines region="let mut changes=>Ok (changes)" as=assign_deadlines_loop params="policy: &Policy, max_partitions: u64, partition_size: u64, deadlines: &[Option<Deadline>], mut heap: BinaryHeap<Entry>, sectors: Vec<SectorOnChainInfo>" retty="anyhow::Result<Vec<Vec<SectorOnChainInfo>>>" sigsub1="pub fn assign_deadlines_loop=>fn assign_deadlines_loop"
    requires
        // what the first half of assign_deadlines (assign_deadlines_heap below) established: one entry per assignable deadline, at least one
        da_heap_ok(heap@, deadlines@, Seq::new(policy.wpost_period_deadlines as usize as nat, |i: int| Seq::<SectorOnChainInfo>::empty()), partition_size),
        heap@.len() > 0,
        // PRECONDITIONS of the real code (each a panic / wrap-around otherwise):
        deadlines@.len() <= policy.wpost_period_deadlines as usize,            // `changes[info.index]` is in bounds
        partition_size * max_partitions <= u64::MAX,                          // the product in max_partitions_reached
        forall|i: int| 0 <= i < deadlines@.len() && (#[trigger] deadlines@[i]).is_some()
            ==> deadlines@[i]->Some_0.live_sectors <= deadlines@[i]->Some_0.total_sectors,   // `live_sectors += 1` cannot overflow
    ensures
        r.is_ok() ==> ({
            let c = da_cv(r->Ok_0@);
            // one bucket per deadline of the proving period
            &&& c.len() == policy.wpost_period_deadlines as usize
            // C04 "every sector belongs to ... exactly one deadline": every input sector is in EXACTLY ONE bucket — none dropped, none duplicated
            &&& da_flat(c) =~= sectors@.to_multiset()
            // no sector goes to a deadline that is not assignable (None: the current / next deadline), and no deadline that receives sectors
            // ends with more than max_partitions * partition_size sectors
            &&& da_buckets_ok(deadlines@, c, partition_size, max_partitions)
        }),
//@ entry
        let ghost s0 = sectors@;
//@ before "for sector in"
        proof {
            assert(da_cv(changes@) =~= Seq::new(policy.wpost_period_deadlines as usize as nat, |i: int| Seq::<SectorOnChainInfo>::empty())) ;
            lemma_da_flat_empty(da_cv(changes@));
            assert(s0.take(0) =~= Seq::<SectorOnChainInfo>::empty());
            if s0.len() == 0 { assert(s0 =~= Seq::<SectorOnChainInfo>::empty()); }
            broadcast use vstd::seq_lib::group_to_multiset_ensures;
        }
//@ loop 0 iter=it
            invariant
                it.seq() == s0,
                changes@.len() == policy.wpost_period_deadlines as usize,
                deadlines@.len() <= changes@.len(),
                partition_size * max_partitions <= u64::MAX,
                forall|i: int| 0 <= i < deadlines@.len() && (#[trigger] deadlines@[i]).is_some()
                    ==> deadlines@[i]->Some_0.live_sectors <= deadlines@[i]->Some_0.total_sectors,
                da_heap_ok(heap@, deadlines@, da_cv(changes@), partition_size),
                heap@.len() > 0,
                da_buckets_ok(deadlines@, da_cv(changes@), partition_size, max_partitions),
                da_flat(da_cv(changes@)) =~= s0.take(it.index@ as int).to_multiset(),
                it.index@ == s0.len() ==> da_flat(da_cv(changes@)) =~= s0.to_multiset(),
//@ loopstart 0
            let ghost h0 = heap@;
            let ghost c0 = da_cv(changes@);
            let ghost x = sector;
//@ after "let info ="
            let ghost i0 = *info;
            proof { assert(da_entry_ok(Entry { partition_size: partition_size, info: i0 }, deadlines@, c0, partition_size)); }
//@ loopend 0
            let ghost i1 = *info;
            proof {
                lemma_da_step(h0, heap@, Entry { partition_size: partition_size, info: i0 }, Entry { partition_size: partition_size, info: i1 },
                    deadlines@, c0, da_cv(changes@), partition_size, max_partitions, x);
                broadcast use vstd::seq_lib::group_to_multiset_ensures;
                assert(s0.take(it.index@ + 1) =~= s0.take(it.index@ as int).push(x));
                if it.index@ + 1 == s0.len() { assert(s0.take(it.index@ + 1) =~= s0); }
            }
//@ end

// ======================= the first half of assign_deadlines: one heap entry per assignable deadline =======================
/// the entry built for deadline i before anything is assigned
spec fn da_entry0(d: Seq<Option<Deadline>>, i: int, ps: u64) -> Entry {
    Entry { partition_size: ps, info: DeadlineAssignmentInfo { index: i as usize, live_sectors: d[i]->Some_0.live_sectors, total_sectors: d[i]->Some_0.total_sectors } }
}
/// the heap after the deadlines below n were looked at: EXACTLY one entry for each assignable (Some) deadline, none for the others
spec fn da_heap_init(h: Multiset<Entry>, d: Seq<Option<Deadline>>, n: int, ps: u64) -> bool {
    &&& forall|e: Entry| #[trigger] h.count(e) > 0 ==> (e.info.index as int) < n && d[e.info.index as int].is_some() && e == da_entry0(d, e.info.index as int, ps)
    &&& forall|e: Entry| #[trigger] h.count(e) <= 1
    &&& forall|i: int| 0 <= i < n && (#[trigger] d[i]).is_some() ==> h.count(da_entry0(d, i, ps)) == 1
}
/// `assert!(c)` panics unless c: requiring c means the unit proves the assertion never fires (a verified function, not a stub)
fn vx_assert(c: bool) requires c {}
proof fn lemma_da_init_ok(h: Multiset<Entry>, d: Seq<Option<Deadline>>, ps: u64, n: nat)
    requires da_heap_init(h, d, d.len() as int, ps), d.len() <= n
    ensures da_heap_ok(h, d, Seq::new(n, |i: int| Seq::<SectorOnChainInfo>::empty()), ps)
{
    let c = Seq::new(n, |i: int| Seq::<SectorOnChainInfo>::empty());
    assert forall|e: Entry| #[trigger] h.count(e) > 0 implies da_entry_ok(e, d, c, ps) by {
        assert(e == da_entry0(d, e.info.index as int, ps));
    }
}

//@ fn actors/miner/src/deadline_assignment.rs assign_deadlines region="let mut heap=>assert ! (! heap . is_empty ())" as=assign_deadlines_heap params="partition_size: u64, deadlines: &[Option<Deadline>]" retty="BinaryHeap<Entry>" tail="heap" sigsub1="pub fn assign_deadlines_heap=>fn assign_deadlines_heap" sub1="deadlines . iter () . enumerate () . filter_map (| (index , deadline) | deadline . as_ref () . map (| dl | (index , dl)))=>{ let mut vx_h: BinaryHeap<Entry> = BinaryHeap::new(); let mut index: usize = 0; while index < deadlines.len() invariant index <= deadlines@.len(), da_heap_init(vx_h@, deadlines@, index as int, partition_size) decreases deadlines@.len() - index { match deadlines[index].as_ref() { Some(deadline) => { let ghost vx_h0 = vx_h@; vx_h.push" sub2=". map=>" sub3="| (index , deadline) |=>" sub4=". collect ()=>; proof { lemma_da_init_push(vx_h0, vx_h@, deadlines@, index as int, partition_size); } } None => { proof { lemma_da_init_skip(vx_h@, deadlines@, index as int, partition_size); } } } index += 1; } vx_h }" sub5="assert !=>vx_assert"
    requires
        // PRECONDITION of the real code: `assert!(!heap.is_empty())` panics when NO deadline is assignable
        exists|i: int| 0 <= i < deadlines@.len() && (#[trigger] deadlines@[i]).is_some(),
    ensures
        // exactly one entry for each assignable (Some) deadline — carrying ITS index and ITS live / total sector counts — and no entry for a
        // deadline that is None (the current / next deadline)
        da_heap_init(r@, deadlines@, deadlines@.len() as int, partition_size),
        r@.len() > 0,
//@ before "assert ! (! heap . is_empty ())"
        proof {
            let i = choose|i: int| 0 <= i < deadlines@.len() && (#[trigger] deadlines@[i]).is_some();
            assert(heap@.count(da_entry0(deadlines@, i, partition_size)) == 1);
            if heap@.len() == 0 { vstd::multiset::lemma_multiset_empty_len(heap@); assert(false); }
        }
//@ end
proof fn lemma_da_init_push(h0: Multiset<Entry>, h1: Multiset<Entry>, d: Seq<Option<Deadline>>, n: int, ps: u64)
    requires da_heap_init(h0, d, n, ps), 0 <= n < d.len(), n <= usize::MAX, d[n].is_some(), h1 == h0.insert(da_entry0(d, n, ps))
    ensures da_heap_init(h1, d, n + 1, ps)
{
    let e1 = da_entry0(d, n, ps);
    assert(h0.count(e1) == 0) by { if h0.count(e1) > 0 { assert((e1.info.index as int) < n); } }
    assert forall|i: int| 0 <= i < n + 1 && (#[trigger] d[i]).is_some() implies h1.count(da_entry0(d, i, ps)) == 1 by {
        if i < n { assert(da_entry0(d, i, ps).info.index == i); assert(da_entry0(d, i, ps) != e1); }
    }
}
proof fn lemma_da_init_skip(h: Multiset<Entry>, d: Seq<Option<Deadline>>, n: int, ps: u64)
    requires da_heap_init(h, d, n, ps), 0 <= n < d.len(), d[n].is_none()
    ensures da_heap_init(h, d, n + 1, ps)
{}

// ======================= assign_deadlines = its two halves, one after the other =======================
// The body of assign_deadlines is: the item statements `struct Entry` + its Ord / PartialOrd / Eq / PartialEq impls (declarations, no run-time
// effect), then the statements lifted into assign_deadlines_heap (`let mut heap = ...; assert!(!heap.is_empty());`), then those lifted into
// assign_deadlines_loop (`let mut changes = ...; for ... ; Ok(changes)`): the two region notes in the evidence list them. This function is that
// sequencing, written here because neither Verus (item statements) nor the extractor (lifts nested fn items only) takes the body whole; the
// TOP-LEVEL contract (C04) is stated on it and proved from the two halves' contracts.
fn assign_deadlines_whole(policy: &Policy, max_partitions: u64, partition_size: u64, deadlines: &[Option<Deadline>], sectors: Vec<SectorOnChainInfo>)
    -> (r: anyhow::Result<Vec<Vec<SectorOnChainInfo>>>)
    requires
        // PRECONDITIONS of the real code (violating one is a panic / arithmetic wrap, not a wrong answer):
        exists|i: int| 0 <= i < deadlines@.len() && (#[trigger] deadlines@[i]).is_some(),     // assert!(!heap.is_empty())
        deadlines@.len() <= policy.wpost_period_deadlines as usize,                         // changes[info.index]
        partition_size * max_partitions <= u64::MAX,                                       // partition_size * max_partitions
        forall|i: int| 0 <= i < deadlines@.len() && (#[trigger] deadlines@[i]).is_some()
            ==> deadlines@[i]->Some_0.live_sectors <= deadlines@[i]->Some_0.total_sectors,  // live_sectors += 1 (C04: live sectors are sectors)
    ensures
        r.is_ok() ==> ({
            let c = da_cv(r->Ok_0@);
            // the returned vector has one bucket per deadline of the proving period
            &&& c.len() == policy.wpost_period_deadlines as usize
            // C04 "every sector belongs to exactly one partition of exactly one deadline": each input sector is in EXACTLY ONE bucket — the
            // multiset union of the buckets IS the input (nothing dropped, nothing duplicated, nothing invented)
            &&& da_flat(c) =~= sectors@.to_multiset()
            // no sector is assigned to a deadline whose slot is None (the immutable current / next deadline, or one out of range), and a
            // deadline that receives sectors ends with at most max_partitions * partition_size sectors in total
            &&& forall|i: int| 0 <= i < c.len() && (#[trigger] c[i]).len() > 0 ==>
                    i < deadlines@.len() && deadlines@[i].is_some()
                    && deadlines@[i]->Some_0.total_sectors + c[i].len() <= partition_size as int * max_partitions as int
        }),
{
    let heap = assign_deadlines_heap(partition_size, deadlines);
    proof { lemma_da_init_ok(heap@, deadlines@, partition_size, policy.wpost_period_deadlines as usize as nat); }
    assign_deadlines_loop(policy, max_partitions, partition_size, deadlines, heap, sectors)
}

fn main() {}
} // verus!
