// unit: miner ExtendSectorExpiration2 — every extended partition is named in its deadline's expiration queue (C04)
// A REGION of Actor::extend_sector_expiration_inner (R21): from `let mut partitions_by_new_epoch` to the loop over `epochs_to_reschedule`,
// forward-sliced on the two bookkeeping variables. The ~120 lines in between (sector loading, extend_sector_committment, replace_sectors,
// power / pledge accumulation) are dropped under the checks listed in the evidence; `deadline` is havoc'd wherever they ran.
//@ include prelude/core.rs
//@ include prelude/ipld.rs
//@ include prelude/bitfield.rs
//@ include prelude/rt.rs
//@ include prelude/btreemap.rs
use std::ops;
verus! {
//@ item actors/miner/src/partition_state.rs PowerPair
//@ item actors/miner/src/quantize.rs QuantSpec attr="#[derive(Clone, Copy)]"
//@ item actors/miner/src/deadline_state.rs Deadline
//@ item actors/miner/src/lib.rs ValidatedExpirationExtension
//@ include prelude/miner_extend_bookkeeping_assumed.rs

/// the declarations seen so far all have their partition listed under their new expiration, and every key of the map is scheduled
pub open spec fn booked(decls: Seq<&ValidatedExpirationExtension>, n: int, m: Map<ChainEpoch, Vec<u64>>, epochs: Seq<ChainEpoch>) -> bool {
    &&& forall|j: int| 0 <= j < n ==> #[trigger] m.dom().contains(decls[j].new_expiration) && m[decls[j].new_expiration]@.contains(decls[j].partition)
    &&& forall|e: ChainEpoch| #![trigger m.dom().contains(e)] m.dom().contains(e) ==> epochs.contains(e)
    &&& forall|i: int| 0 <= i < epochs.len() ==> m.dom().contains(#[trigger] epochs[i])
}

pub proof fn lemma_book_step(decls: Seq<&ValidatedExpirationExtension>, n: int, m: Map<ChainEpoch, Vec<u64>>, m2: Map<ChainEpoch, Vec<u64>>,
    epochs: Seq<ChainEpoch>, epochs2: Seq<ChainEpoch>)
    requires
        0 <= n < decls.len(), booked(decls, n, m, epochs),
        m2.dom() == m.dom().insert(decls[n].new_expiration),
        m2[decls[n].new_expiration]@ == (if m.dom().contains(decls[n].new_expiration) { m[decls[n].new_expiration]@ } else { Seq::<u64>::empty() }).push(decls[n].partition),
        forall|k2: ChainEpoch| k2 != decls[n].new_expiration && m.dom().contains(k2) ==> m2[k2] == m[k2],
        epochs2 == (if m.dom().contains(decls[n].new_expiration) { epochs } else { epochs.push(decls[n].new_expiration) }),
    ensures booked(decls, n + 1, m2, epochs2),
{
    let k = decls[n].new_expiration;
    let prev = if m.dom().contains(k) { m[k]@ } else { Seq::<u64>::empty() };
    assert(m2[k]@[prev.len() as int] == decls[n].partition);
    assert forall|j: int| 0 <= j < n + 1 implies #[trigger] m2.dom().contains(decls[j].new_expiration) && m2[decls[j].new_expiration]@.contains(decls[j].partition) by {
        if j < n {
            if decls[j].new_expiration == k {
                let i = choose|i: int| 0 <= i < m[k]@.len() && m[k]@[i] == decls[j].partition;
                assert(m2[k]@[i] == decls[j].partition);
            }
        }
    }
    assert forall|e: ChainEpoch| m2.dom().contains(e) implies epochs2.contains(e) by {
        if m.dom().contains(e) {
            let i = choose|i: int| 0 <= i < epochs.len() && epochs[i] == e;
            assert(epochs2[i] == e);
        } else {
            assert(e == k);
            assert(epochs2[epochs.len() as int] == e);
        }
    }
}

//@ fn actors/miner/src/lib.rs Actor::extend_sector_expiration_inner region="let mut partitions_by_new_epoch=>for epoch in epochs_to_reschedule" as=extend_expiration_bookkeeping params="rt: &Rt, deadline: &mut Deadline, decls_by_deadline: &Vec<Vec<&ValidatedExpirationExtension>>, deadline_idx: u64, quant: QuantSpec" retty="Result<(), ActorError>" tail="Ok(())" slice="partitions_by_new_epoch,epochs_to_reschedule" havoc="deadline" shared="rt,decl" ret=res r19=0 sub1="& mut decls_by_deadline=>& decls_by_deadline"
    requires (deadline_idx as int) < decls_by_deadline.len(),
    ensures
        // "every on-chain sector belongs to exactly one partition of exactly one deadline ... expiration-queue summaries": after the extension of
        // a deadline's declarations, the deadline's expiration queue names EVERY declared partition at its new expiration epoch
        res.is_ok() ==> forall|j: int| 0 <= j < decls_by_deadline@[deadline_idx as int]@.len() ==>
            dl_exp_has(*final(deadline), quant, (#[trigger] decls_by_deadline@[deadline_idx as int]@[j]).new_expiration, decls_by_deadline@[deadline_idx as int]@[j].partition),
//@ loop 0
            invariant
                __vx_i0 <= __vx_v0@.len(), __vx_v0@ == decls_by_deadline@[deadline_idx as int]@,
                booked(__vx_v0@, __vx_i0 as int, partitions_by_new_epoch.view(), epochs_to_reschedule@),
            decreases __vx_v0@.len() - __vx_i0,
//@ loopstart 0
                let ghost m0 = partitions_by_new_epoch.view();
                let ghost e0 = epochs_to_reschedule@;
//@ loopend 0
                proof { lemma_book_step(__vx_v0@, __vx_i0 as int - 1, m0, partitions_by_new_epoch.view(), e0, epochs_to_reschedule@); }
//@ loop 1 iter=it
            invariant
                it.seq() == epochs_to_reschedule@,
                booked(decls_by_deadline@[deadline_idx as int]@, decls_by_deadline@[deadline_idx as int]@.len() as int, partitions_by_new_epoch.view(), it.seq()),
                forall|i: int, p: u64| 0 <= i < it.index@ && partitions_by_new_epoch.view()[it.seq()[i]]@.contains(p) ==> #[trigger] dl_exp_has(*deadline, quant, it.seq()[i], p),
//@ before "Ok (())"
        proof {
            let decls = decls_by_deadline@[deadline_idx as int]@;
            assert forall|j: int| 0 <= j < decls.len() implies dl_exp_has(*deadline, quant, (#[trigger] decls[j]).new_expiration, decls[j].partition) by {
                let e = decls[j].new_expiration;
                assert(partitions_by_new_epoch.view().dom().contains(e));
                let i = choose|i: int| 0 <= i < epochs_to_reschedule@.len() && epochs_to_reschedule@[i] == e;
                assert(dl_exp_has(*deadline, quant, epochs_to_reschedule@[i], decls[j].partition));
            }
        }
//@ end
} // verus!
fn main() {}
