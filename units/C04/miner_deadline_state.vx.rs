// unit: miner Deadline — the deadline-level sector bookkeeping of deadline_state.rs (C04 memoised summaries; C02 power deltas)
// Under contract (real bodies from /repo): Deadline::{record_faults, declare_faults_recovered, process_deadline_end, record_proven_sectors,
// pop_expired_sectors, terminate_sectors, add_sectors, pop_early_terminations} and their helpers {partitions_amt, add_expiration_partitions,
// pop_expired_partitions}, ExpirationSet::{empty, len, is_empty}, Partition::new, TerminationResult::below_limit.
// Shape: the partitions AMT is a finite map u64 -> Partition; `psum(m, w)` is the sum of a per-partition quantity `w` over it (recursion on the
// index bound, one update lemma `lemma_psum_insert`); `dl_gap_same` says every memo of the deadline (faulty power, live power, live / total
// sector count) moved by exactly the sum of the per-partition changes (=> `dl_consistent` is preserved); `is_active_delta` says the power
// handed upward is the change of the sum of ACTIVE (= live - faulty - unproven) power.
// The Partition contracts are those of units/C04/partition.vx.rs (directive text copied; seven of them state additional facts the deadline
// level needs, each marked "added for the deadline level"); replace_sectors is not needed and left out.
// Assumptions: prelude/miner_deadline_state_partition_assumed.rs (a strengthened copy of prelude/miner_partition_assumed.rs: see its header)
// and prelude/miner_deadline_state_assumed.rs. NOT under contract: Deadline::compact_partitions (see the report), the daily-fee memo beyond
// "moves by what is reported", the content link between the partitions' expiration queues and the deadline's queue.
//@ include prelude/core.rs
//@ include prelude/ipld.rs
//@ include prelude/bitfield.rs
use std::ops;
use std::cmp;
verus! {


//@ item actors/miner/src/partition_state.rs PowerPair
//@ item actors/miner/src/partition_state.rs Partition
//@ item actors/miner/src/quantize.rs QuantSpec attr="#[derive(Clone, Copy)]"
//@ item actors/miner/src/expiration_queue.rs ExpirationSet
//@ const actors/miner/src/quantize.rs NO_QUANTIZATION
//@ include prelude/miner_deadline_state_partition_assumed.rs
//@ include units/shared/power_pair.inc

// ======================= the protocol's nesting of the five sets =======================
pub open spec fn bf_nested(p: Partition) -> bool {
    &&& p.terminated@.intersect(p.unproven@.union(p.faults@)) =~= vstd::set::Set::<u64>::empty()   // terminated excludes unproven and faulty
    &&& p.unproven@.union(p.faults@).union(p.terminated@).subset_of(p.sectors@)    // all are sectors of this partition
    &&& p.recoveries@.subset_of(p.faults@)                                         // recovering sectors are faulty
}
pub open spec fn pw_nonneg(x: PowerPair) -> bool { x.raw@ >= 0 && x.qa@ >= 0 }
pub open spec fn power_ok(p: Partition) -> bool {
    &&& pw_nonneg(p.live_power) && pw_nonneg(p.unproven_power) && pw_nonneg(p.faulty_power) && pw_nonneg(p.recovering_power)
    &&& p.unproven_power.raw@ <= p.live_power.raw@
    &&& p.faulty_power.raw@ <= p.live_power.raw@
    &&& p.recovering_power.raw@ <= p.faulty_power.raw@
}

//@ fn actors/miner/src/partition_state.rs Partition::validate_bf_state
    ensures
        // the runtime guard run after every update is faithful: Ok exactly when the sets nest as the protocol defines
        r.is_ok() <==> bf_nested(*self),
//@ end
//@ fn actors/miner/src/partition_state.rs Partition::validate_power_state
    ensures
        r.is_ok() <==> power_ok(*self),
//@ end
//@ fn actors/miner/src/partition_state.rs Partition::validate_state
    ensures
        r.is_ok() <==> (power_ok(*self) && bf_nested(*self)),
//@ end

//@ fn actors/miner/src/partition_state.rs Partition::live_sectors
    ensures r@ == self.sectors@.difference(self.terminated@),
//@ end
//@ fn actors/miner/src/partition_state.rs Partition::active_sectors
    ensures r@ == self.sectors@.difference(self.terminated@).difference(self.faults@).difference(self.unproven@),
//@ end
//@ fn actors/miner/src/partition_state.rs Partition::active_power
    ensures
        // power credited for this partition: live minus faulty minus not-yet-proven
        r.raw@ == self.live_power.raw@ - self.faulty_power.raw@ - self.unproven_power.raw@,
        r.qa@ == self.live_power.qa@ - self.faulty_power.qa@ - self.unproven_power.qa@,
//@ end

//@ fn actors/miner/src/partition_state.rs Partition::remove_recoveries
    ensures
        final(self).recoveries@ == (if sector_numbers@ =~= vstd::set::Set::<u64>::empty() { old(self).recoveries@ } else { old(self).recoveries@.difference(sector_numbers@) }),
        !(sector_numbers@ =~= vstd::set::Set::<u64>::empty()) ==> final(self).recovering_power.raw@ == old(self).recovering_power.raw@ - power.raw@
            && final(self).recovering_power.qa@ == old(self).recovering_power.qa@ - power.qa@,
        // nothing else moves
        final(self).sectors == old(self).sectors, final(self).unproven == old(self).unproven, final(self).faults == old(self).faults,
        final(self).terminated == old(self).terminated, final(self).live_power == old(self).live_power,
        final(self).unproven_power == old(self).unproven_power, final(self).faulty_power == old(self).faulty_power,
        final(self).expirations_epochs == old(self).expirations_epochs, final(self).early_terminated == old(self).early_terminated,
        bf_nested(*old(self)) ==> bf_nested(*final(self)),
//@ end

// ======================= faults and recoveries: the power delta reported upward is exactly the change of ACTIVE power (C02) =======================
pub open spec fn act_raw(p: Partition) -> int { p.live_power.raw@ - p.faulty_power.raw@ - p.unproven_power.raw@ }
pub open spec fn act_qa(p: Partition) -> int { p.live_power.qa@ - p.faulty_power.qa@ - p.unproven_power.qa@ }

//@ fn actors/miner/src/partition_state.rs Partition::add_faults ret=res
    ensures
        res.is_ok() ==> ({
            let (power_delta, new_faulty) = res->Ok_0;
            // "a sector contributes no power ... while it is faulty": the delta sent to the power actor equals the change of active power,
            // so never-proven sectors (which never contributed) are not subtracted
            &&& power_delta.raw@ == act_raw(*final(self)) - act_raw(*old(self))
            &&& power_delta.qa@ == act_qa(*final(self)) - act_qa(*old(self))
            &&& final(self).faulty_power.raw@ == old(self).faulty_power.raw@ + new_faulty.raw@
            &&& final(self).faulty_power.qa@ == old(self).faulty_power.qa@ + new_faulty.qa@
            &&& final(self).live_power.raw@ == old(self).live_power.raw@ && final(self).live_power.qa@ == old(self).live_power.qa@
            &&& final(self).recovering_power == old(self).recovering_power
            // set effects: the sectors become faulty and leave the unproven set; nothing else moves
            &&& final(self).faults@ =~= old(self).faults@.union(sector_numbers@)
            &&& final(self).unproven@ =~= old(self).unproven@.difference(sector_numbers@)
            &&& final(self).sectors == old(self).sectors && final(self).recoveries == old(self).recoveries && final(self).terminated == old(self).terminated
            // and the result passed the partition's own nesting check
            &&& bf_nested(*final(self)) && power_ok(*final(self))
        }),
//@ end

//@ fn actors/miner/src/partition_state.rs Partition::recover_faults
    ensures
        r.is_ok() ==> ({
            let power = r->Ok_0;
            // recovered sectors leave faults and recoveries; faulty and recovering power drop by the same amount: active power rises by it
            &&& final(self).faults@ =~= old(self).faults@.difference(old(self).recoveries@)
            &&& final(self).recoveries@ =~= vstd::set::Set::<u64>::empty()
            &&& final(self).faulty_power.raw@ == old(self).faulty_power.raw@ - power.raw@ && final(self).faulty_power.qa@ == old(self).faulty_power.qa@ - power.qa@
            &&& final(self).recovering_power.raw@ == old(self).recovering_power.raw@ - power.raw@ && final(self).recovering_power.qa@ == old(self).recovering_power.qa@ - power.qa@
            &&& power.raw@ == act_raw(*final(self)) - act_raw(*old(self)) && power.qa@ == act_qa(*final(self)) - act_qa(*old(self))
            &&& final(self).sectors == old(self).sectors && final(self).unproven == old(self).unproven && final(self).terminated == old(self).terminated
            &&& final(self).live_power == old(self).live_power && final(self).unproven_power == old(self).unproven_power
            &&& bf_nested(*final(self)) && power_ok(*final(self))
        }),
//@ end

//@ fn actors/miner/src/partition_state.rs Partition::activate_unproven
    ensures
        // a successful proof activates ALL unproven sectors: the returned power is exactly the unproven memo, which becomes zero
        r.raw@ == old(self).unproven_power.raw@ && r.qa@ == old(self).unproven_power.qa@,
        final(self).unproven@ =~= vstd::set::Set::<u64>::empty(),
        final(self).unproven_power.raw@ == 0 && final(self).unproven_power.qa@ == 0,
        final(self).sectors == old(self).sectors, final(self).faults == old(self).faults, final(self).recoveries == old(self).recoveries,
        final(self).terminated == old(self).terminated, final(self).live_power == old(self).live_power,
        final(self).faulty_power == old(self).faulty_power, final(self).recovering_power == old(self).recovering_power,
        bf_nested(*old(self)) ==> bf_nested(*final(self)),
//@ end

//@ fn actors/miner/src/partition_state.rs Partition::record_missed_post ret=res
    ensures
        res.is_ok() ==> ({
            let (power_delta, penalized, new_faulty) = res->Ok_0;
            // "a deadline that closes without a proof removes the power of its unproven partitions": after a missed PoSt every live sector is
            // faulty, nothing is recovering or unproven, the partition contributes no active power, and the delta reported is exactly that loss
            &&& final(self).faults@ =~= old(self).sectors@.difference(old(self).terminated@)
            &&& final(self).recoveries@ =~= vstd::set::Set::<u64>::empty() && final(self).unproven@ =~= vstd::set::Set::<u64>::empty()
            &&& act_raw(*final(self)) == 0 && act_qa(*final(self)) == 0
            &&& power_delta.raw@ == act_raw(*final(self)) - act_raw(*old(self)) && power_delta.qa@ == act_qa(*final(self)) - act_qa(*old(self))
            // newly faulty = live power that was not faulty yet; penalised = that plus the failed recoveries
            &&& new_faulty.raw@ == old(self).live_power.raw@ - old(self).faulty_power.raw@ && new_faulty.qa@ == old(self).live_power.qa@ - old(self).faulty_power.qa@
            &&& penalized.raw@ == old(self).recovering_power.raw@ + new_faulty.raw@ && penalized.qa@ == old(self).recovering_power.qa@ + new_faulty.qa@
            &&& final(self).live_power.raw@ == old(self).live_power.raw@ && final(self).live_power.qa@ == old(self).live_power.qa@
            &&& final(self).sectors == old(self).sectors && final(self).terminated == old(self).terminated
            &&& bf_nested(*final(self)) && power_ok(*final(self))
            // (added for the deadline level) all live power is faulty afterwards, nothing is recovering or unproven
            &&& final(self).faulty_power.raw@ == old(self).live_power.raw@ && final(self).faulty_power.qa@ == old(self).live_power.qa@
            &&& final(self).recovering_power.raw@ == 0 && final(self).recovering_power.qa@ == 0
            &&& final(self).unproven_power.raw@ == 0 && final(self).unproven_power.qa@ == 0
        }),
//@ end

//@ fn actors/miner/src/lib.rs validate_partition_contains_sectors
    ensures r.is_ok() <==> sectors@.subset_of(partition.sectors@),
//@ end
//@ fn actors/miner/src/partition_state.rs Partition::record_skipped_faults ret=res
    ensures
        res.is_ok() ==> ({
            let (power_delta, new_fault_power, retracted_power, has_new) = res->Ok_0;
            // "a sector contributes no power ... while it is skipped": skipped live non-faulty sectors become faulty, skipped recoveries are
            // retracted, and the reported delta is exactly the change of active power
            &&& skipped@.subset_of(old(self).sectors@)
            &&& final(self).faults@ =~= old(self).faults@.union(skipped@.difference(old(self).terminated@))
            &&& final(self).recoveries@ =~= old(self).recoveries@.difference(skipped@)
            &&& power_delta.raw@ == act_raw(*final(self)) - act_raw(*old(self)) && power_delta.qa@ == act_qa(*final(self)) - act_qa(*old(self))
            &&& final(self).sectors == old(self).sectors && final(self).terminated == old(self).terminated
            &&& final(self).live_power.raw@ == old(self).live_power.raw@ && final(self).live_power.qa@ == old(self).live_power.qa@
            // (added for the deadline level) the faulty memo grows by exactly the reported new faulty power; the flag says whether some sector became faulty
            &&& final(self).faulty_power.raw@ == old(self).faulty_power.raw@ + new_fault_power.raw@ && final(self).faulty_power.qa@ == old(self).faulty_power.qa@ + new_fault_power.qa@
            &&& has_new == (skipped@.difference(old(self).terminated@).difference(old(self).faults@).len() > 0)
        }),
//@ entry
        proof { if skipped@ =~= Set::<u64>::empty() { assert(skipped@.difference(self.terminated@).difference(self.faults@) =~= Set::<u64>::empty()); } }
//@ before "self . validate_state ()"
        proof {
            assert(retracted_recoveries@ =~= old(self).recoveries@.intersect(skipped@));
            assert(old(self).recoveries@.difference(retracted_recoveries@) =~= old(self).recoveries@.difference(skipped@));
            if retracted_recoveries@ =~= vstd::set::Set::<u64>::empty() { assert(old(self).recoveries@.difference(skipped@) =~= old(self).recoveries@); }
        }
//@ end
//@ fn actors/miner/src/partition_state.rs Partition::declare_faults_recovered
    ensures
        r.is_ok() ==> sector_numbers@.subset_of(old(self).sectors@)
            // only faulty sectors can be declared recovering; faults, terminations and active power are untouched
            && final(self).recoveries@ =~= old(self).recoveries@.union(sector_numbers@.intersect(old(self).faults@))
            && final(self).faults == old(self).faults && final(self).terminated == old(self).terminated && final(self).sectors == old(self).sectors
            && final(self).unproven == old(self).unproven
            && act_raw(*final(self)) == act_raw(*old(self)) && act_qa(*final(self)) == act_qa(*old(self))
            // (added for the deadline level) no memo the deadline sums moves
            && final(self).faulty_power == old(self).faulty_power && final(self).live_power == old(self).live_power && final(self).unproven_power == old(self).unproven_power,
//@ end

//@ fn actors/miner/src/partition_state.rs Partition::record_faults ret=res
    ensures
        res.is_ok() ==> ({
            let (new_faults, power_delta, new_faulty) = res->Ok_0;
            // a declared fault: live, not yet faulty sectors become faulty (terminated ones are skipped), declared recoveries among them are retracted,
            // and the delta reported upward is exactly the change of active power
            &&& sector_numbers@.subset_of(old(self).sectors@)
            &&& new_faults@ =~= sector_numbers@.difference(old(self).recoveries@).difference(old(self).terminated@).difference(old(self).faults@)
            &&& final(self).faults@ =~= old(self).faults@.union(new_faults@)
            &&& final(self).recoveries@ =~= old(self).recoveries@.difference(sector_numbers@)
            &&& power_delta.raw@ == act_raw(*final(self)) - act_raw(*old(self)) && power_delta.qa@ == act_qa(*final(self)) - act_qa(*old(self))
            &&& final(self).sectors == old(self).sectors && final(self).terminated == old(self).terminated
            // (added for the deadline level) the faulty memo grows by exactly the reported new faulty power; live power does not move
            &&& final(self).faulty_power.raw@ == old(self).faulty_power.raw@ + new_faulty.raw@ && final(self).faulty_power.qa@ == old(self).faulty_power.qa@ + new_faulty.qa@
            &&& final(self).live_power.raw@ == old(self).live_power.raw@ && final(self).live_power.qa@ == old(self).live_power.qa@
        }),
//@ before "self . validate_state ()"
        proof {
            assert(retracted_recoveries@ =~= old(self).recoveries@.intersect(sector_numbers@));
            assert(old(self).recoveries@.difference(retracted_recoveries@) =~= old(self).recoveries@.difference(sector_numbers@));
            if retracted_recoveries@ =~= vstd::set::Set::<u64>::empty() { assert(old(self).recoveries@.difference(sector_numbers@) =~= old(self).recoveries@); }
        }
//@ end

// ======================= growth and shrinkage of the partition: sectors in, sectors out =======================
//@ fn actors/miner/src/partition_state.rs Partition::record_early_termination
    ensures
        // only the early-termination queue root moves
        final(self).sectors == old(self).sectors, final(self).unproven == old(self).unproven, final(self).faults == old(self).faults,
        final(self).recoveries == old(self).recoveries, final(self).terminated == old(self).terminated,
        final(self).expirations_epochs == old(self).expirations_epochs,
        final(self).live_power == old(self).live_power, final(self).unproven_power == old(self).unproven_power,
        final(self).faulty_power == old(self).faulty_power, final(self).recovering_power == old(self).recovering_power,
//@ end

//@ fn actors/miner/src/partition_state.rs Partition::add_sectors ret=res
    ensures
        res.is_ok() ==> ({
            let (power, fee) = res->Ok_0;
            // "a sector contributes no power before a PoSt has covered it": sectors added unproven change live and unproven power by the same
            // amount, so the partition's ACTIVE power is unchanged; only sectors added as proven raise it, by exactly the returned power
            &&& act_raw(*final(self)) - act_raw(*old(self)) == (if proven { power.raw@ } else { 0 })
            &&& act_qa(*final(self)) - act_qa(*old(self)) == (if proven { power.qa@ } else { 0 })
            &&& final(self).live_power.raw@ == old(self).live_power.raw@ + power.raw@ && final(self).live_power.qa@ == old(self).live_power.qa@ + power.qa@
            // the added sector numbers are all new, and appear in `unproven` exactly when added unproven
            &&& old(self).sectors@.subset_of(final(self).sectors@)
            &&& final(self).sectors@.difference(old(self).sectors@).disjoint(old(self).sectors@)
            &&& final(self).unproven@ =~= (if proven { old(self).unproven@ } else { old(self).unproven@.union(final(self).sectors@.difference(old(self).sectors@)) })
            &&& final(self).faults == old(self).faults && final(self).recoveries == old(self).recoveries && final(self).terminated == old(self).terminated
            &&& final(self).faulty_power == old(self).faulty_power && final(self).recovering_power == old(self).recovering_power
            &&& bf_nested(*final(self)) && power_ok(*final(self))
            // (added for the deadline level; uses the ADDED fact of the add_active_sectors stub) exactly the given sectors' numbers are added, all new
            &&& final(self).sectors@ =~= old(self).sectors@.union(soci_numbers(sectors@)) && old(self).sectors@.disjoint(soci_numbers(sectors@))
        }),
//@ end


//@ fn actors/miner/src/partition_state.rs Partition::pop_expired_sectors ret=res
    ensures
        res.is_ok() ==> ({
            let popped = res->Ok_0;
            let expired = popped.on_time_sectors@.union(popped.early_sectors@);
            // expiry happens only after proofs were handled; expired sectors become terminated, leave the fault set, and their power leaves the memos:
            // active power drops by exactly the popped active power
            &&& old(self).unproven@ =~= vstd::set::Set::<u64>::empty() && old(self).recoveries@ =~= vstd::set::Set::<u64>::empty()
            &&& old(self).terminated@.disjoint(expired)
            &&& final(self).terminated@ =~= old(self).terminated@.union(expired)
            &&& final(self).faults@ =~= old(self).faults@.difference(expired)
            &&& final(self).live_power.raw@ == old(self).live_power.raw@ - popped.active_power.raw@ - popped.faulty_power.raw@
            &&& final(self).live_power.qa@ == old(self).live_power.qa@ - popped.active_power.qa@ - popped.faulty_power.qa@
            &&& final(self).faulty_power.raw@ == old(self).faulty_power.raw@ - popped.faulty_power.raw@
            &&& final(self).faulty_power.qa@ == old(self).faulty_power.qa@ - popped.faulty_power.qa@
            &&& act_raw(*final(self)) - act_raw(*old(self)) == -popped.active_power.raw@ && act_qa(*final(self)) - act_qa(*old(self)) == -popped.active_power.qa@
            &&& final(self).sectors == old(self).sectors && final(self).unproven == old(self).unproven && final(self).recoveries == old(self).recoveries
            &&& bf_nested(*final(self)) && power_ok(*final(self))
            // (added for the deadline level; the first uses the ADDED fact of the pop_until stub) each expired sector is reported once, and was live
            &&& popped.on_time_sectors@.disjoint(popped.early_sectors@)
            &&& expired.subset_of(old(self).sectors@.difference(old(self).terminated@))
        }),
//@ end

//@ fn actors/miner/src/partition_state.rs Partition::terminate_sectors ret=res
    ensures
        res.is_ok() ==> ({
            let (removed, removed_unproven) = res->Ok_0;
            let gone = removed.on_time_sectors@.union(removed.early_sectors@);
            // only live sectors terminate; whatever was removed becomes terminated and leaves faults, recoveries and unproven; the active power
            // reported as removed (net of never-proven power) is exactly the loss of active power
            &&& sector_numbers@.subset_of(old(self).sectors@.difference(old(self).terminated@))
            &&& final(self).terminated@ =~= old(self).terminated@.union(gone)
            &&& final(self).faults@ =~= old(self).faults@.difference(gone) && final(self).recoveries@ =~= old(self).recoveries@.difference(gone)
            &&& final(self).unproven@ =~= old(self).unproven@.difference(gone)
            &&& act_raw(*final(self)) - act_raw(*old(self)) == -removed.active_power.raw@ && act_qa(*final(self)) - act_qa(*old(self)) == -removed.active_power.qa@
            &&& final(self).faulty_power.raw@ == old(self).faulty_power.raw@ - removed.faulty_power.raw@
            &&& final(self).sectors == old(self).sectors
            &&& bf_nested(*final(self)) && power_ok(*final(self))
            // (added for the deadline level; uses the ADDED facts of the expiration-queue stubs) exactly the named sectors are removed, each reported once
            &&& gone =~= sector_numbers@ && removed.on_time_sectors@.disjoint(removed.early_sectors@)
            &&& final(self).faulty_power.qa@ == old(self).faulty_power.qa@ - removed.faulty_power.qa@
            &&& final(self).live_power.raw@ == old(self).live_power.raw@ - removed.active_power.raw@ - removed.faulty_power.raw@ - removed_unproven.raw@
            &&& final(self).live_power.qa@ == old(self).live_power.qa@ - removed.active_power.qa@ - removed.faulty_power.qa@ - removed_unproven.qa@
        }),
//@ end

// =====================================================================================================================================
// DEADLINE LEVEL (deadline_state.rs): loops over the partitions AMT, memoised summaries of the deadline
// =====================================================================================================================================
//@ item actors/miner/src/deadline_state.rs Deadline
//@ const actors/miner/src/deadline_state.rs DEADLINE_OPTIMISTIC_POST_SUBMISSIONS_AMT_BITWIDTH
//@ const actors/miner/src/state.rs SECTORS_AMT_BITWIDTH
//@ item actors/miner/src/types.rs PoStPartition
//@ item actors/miner/src/deadline_state.rs PoStResult
//@ include prelude/miner_deadline_state_assumed.rs

// derive(Clone) of Partition / derive(PartialEq) of PowerPair re-stated (derives are stripped by the extractor); verified, not assumed.
// A clone is equal to the original up to the views of the opaque big-integer / bitfield values.
pub open spec fn pw_eqv(a: PowerPair, b: PowerPair) -> bool { a.raw@ == b.raw@ && a.qa@ == b.qa@ }
pub open spec fn part_eqv(a: Partition, b: Partition) -> bool {
    &&& a.sectors@ == b.sectors@ && a.unproven@ == b.unproven@ && a.faults@ == b.faults@ && a.recoveries@ == b.recoveries@ && a.terminated@ == b.terminated@
    &&& a.expirations_epochs == b.expirations_epochs && a.early_terminated == b.early_terminated
    &&& pw_eqv(a.live_power, b.live_power) && pw_eqv(a.unproven_power, b.unproven_power) && pw_eqv(a.faulty_power, b.faulty_power) && pw_eqv(a.recovering_power, b.recovering_power)
}
impl Clone for Partition {
    fn clone(&self) -> (r: Self) ensures part_eqv(r, *self) {
        Partition { sectors: self.sectors.clone(), unproven: self.unproven.clone(), faults: self.faults.clone(), recoveries: self.recoveries.clone(),
            terminated: self.terminated.clone(), expirations_epochs: self.expirations_epochs, early_terminated: self.early_terminated,
            live_power: self.live_power.clone(), unproven_power: self.unproven_power.clone(), faulty_power: self.faulty_power.clone(),
            recovering_power: self.recovering_power.clone() }
    }
}
impl vstd::std_specs::cmp::PartialEqSpecImpl for PowerPair {
    open spec fn obeys_eq_spec() -> bool { true }
    open spec fn eq_spec(&self, o: &PowerPair) -> bool { self.raw@ == o.raw@ && self.qa@ == o.qa@ }
}
impl PartialEq for PowerPair {
    fn eq(&self, other: &PowerPair) -> (r: bool) ensures r == (self.raw@ == other.raw@ && self.qa@ == other.qa@) { self.raw == other.raw && self.qa == other.qa }
}

// ======================= ghost sums over the partitions array (a finite map u64 -> Partition) =======================
/// which per-partition quantity is summed
pub enum W { FaultyRaw, FaultyQa, LiveRaw, LiveQa, ActRaw, ActQa, CountLive, CountTotal, PenRaw, PenQa }
pub open spec fn pval(w: W, p: Partition) -> int {
    match w {
        W::FaultyRaw => p.faulty_power.raw@, W::FaultyQa => p.faulty_power.qa@,
        W::LiveRaw => p.live_power.raw@, W::LiveQa => p.live_power.qa@,
        // ACTIVE power: proven, non-faulty, unterminated (C02)
        W::ActRaw => act_raw(p), W::ActQa => act_qa(p),
        W::CountLive => p.sectors@.difference(p.terminated@).len() as int, W::CountTotal => p.sectors@.len() as int,
        // what a missed PoSt is penalised for: failed recoveries plus the live power that was not faulty yet
        W::PenRaw => p.recovering_power.raw@ + p.live_power.raw@ - p.faulty_power.raw@,
        W::PenQa => p.recovering_power.qa@ + p.live_power.qa@ - p.faulty_power.qa@,
    }
}
pub open spec fn u64n() -> nat { 0x1_0000_0000_0000_0000 }
/// sum of `w` over the keys k < n of `m` that are not in `skip` (recursion over the index bound: no choice, no ordering argument needed)
pub open spec fn psum_below(m: Map<u64, Partition>, skip: Set<u64>, w: W, n: nat) -> int
    decreases n
{
    if n == 0 { 0 } else {
        let k = (n - 1) as u64;
        psum_below(m, skip, w, (n - 1) as nat) + (if m.dom().contains(k) && !skip.contains(k) { pval(w, m[k]) } else { 0 })
    }
}
/// the sum over ALL partitions of the array
pub open spec fn psum(m: Map<u64, Partition>, w: W) -> int { psum_below(m, Set::<u64>::empty(), w, u64n()) }
pub open spec fn sum_faulty(m: Map<u64, Partition>) -> (int, int) { (psum(m, W::FaultyRaw), psum(m, W::FaultyQa)) }
pub open spec fn sum_live(m: Map<u64, Partition>) -> (int, int) { (psum(m, W::LiveRaw), psum(m, W::LiveQa)) }
pub open spec fn sum_active(m: Map<u64, Partition>) -> (int, int) { (psum(m, W::ActRaw), psum(m, W::ActQa)) }
pub open spec fn count_live(m: Map<u64, Partition>) -> int { psum(m, W::CountLive) }
pub open spec fn count_total(m: Map<u64, Partition>) -> int { psum(m, W::CountTotal) }
pub open spec fn pp(x: PowerPair) -> (int, int) { (x.raw@, x.qa@) }

/// THE lemma: updating (or adding) key k moves the sum by new[k] - old[k]
pub proof fn lemma_psum_insert(m: Map<u64, Partition>, skip: Set<u64>, w: W, k: u64, v: Partition, n: nat)
    requires n <= u64n()
    ensures psum_below(m.insert(k, v), skip, w, n) == psum_below(m, skip, w, n)
        + (if k < n && !skip.contains(k) { pval(w, v) - (if m.dom().contains(k) { pval(w, m[k]) } else { 0 }) } else { 0 })
    decreases n
{
    if n > 0 {
        lemma_psum_insert(m, skip, w, k, v, (n - 1) as nat);
        let kk = (n - 1) as u64;
        if kk != k { assert(m.insert(k, v).dom().contains(kk) == m.dom().contains(kk)); assert(m.dom().contains(kk) ==> m.insert(k, v)[kk] == m[kk]); }
    }
}
/// ... for every summed quantity at once
pub proof fn lemma_psum_set(m: Map<u64, Partition>, k: u64, v: Partition)
    ensures forall|w: W| #[trigger] psum(m.insert(k, v), w) == psum(m, w) + pval(w, v) - (if m.dom().contains(k) { pval(w, m[k]) } else { 0 })
{
    assert forall|w: W| #[trigger] psum(m.insert(k, v), w) == psum(m, w) + pval(w, v) - (if m.dom().contains(k) { pval(w, m[k]) } else { 0 }) by {
        lemma_psum_insert(m, Set::<u64>::empty(), w, k, v, u64n());
    }
}
/// no key at or above n0: the sum stops growing at n0
pub proof fn lemma_psum_bounded(m: Map<u64, Partition>, skip: Set<u64>, w: W, n0: nat, n: nat)
    requires n0 <= n <= u64n(), forall|k: u64| m.dom().contains(k) ==> k < n0
    ensures psum_below(m, skip, w, n) == psum_below(m, skip, w, n0)
    decreases n
{
    if n > n0 { lemma_psum_bounded(m, skip, w, n0, (n - 1) as nat); }
}
/// two arrays that agree below n have the same sum below n
pub proof fn lemma_psum_agree(m1: Map<u64, Partition>, m2: Map<u64, Partition>, skip: Set<u64>, w: W, n: nat)
    requires n <= u64n(), forall|k: u64| k < n && !skip.contains(k) ==> (m1.dom().contains(k) == m2.dom().contains(k)) && (m1.dom().contains(k) ==> pval(w, m1[k]) == pval(w, m2[k]))
    ensures psum_below(m1, skip, w, n) == psum_below(m2, skip, w, n)
    decreases n
{
    if n > 0 { lemma_psum_agree(m1, m2, skip, w, (n - 1) as nat); }
}
/// a sum whose summands are all zero
pub proof fn lemma_psum_zero(m: Map<u64, Partition>, skip: Set<u64>, w: W, n: nat)
    requires n <= u64n(), forall|k: u64| k < n && m.dom().contains(k) && !skip.contains(k) ==> pval(w, m[k]) == 0
    ensures psum_below(m, skip, w, n) == 0
    decreases n
{
    if n > 0 { lemma_psum_zero(m, skip, w, (n - 1) as nat); }
}

// ======================= the deadline's memos against the sums =======================
pub open spec fn dl_parts(d: Deadline) -> Map<u64, Partition> { array_decode::<Partition>(d.partitions) }
/// C04 "the per-deadline power ... sector-count ... summaries always equal what is recomputed" (from the per-partition summaries)
pub open spec fn dl_consistent(d: Deadline, parts: Map<u64, Partition>) -> bool {
    &&& pp(d.faulty_power) == sum_faulty(parts)
    &&& pp(d.live_power) == sum_live(parts)
    &&& d.live_sectors as int == count_live(parts)
    &&& d.total_sectors as int == count_total(parts)
}
/// the distance of every memo from its sum is the same in (d0, m0) and (d1, m1): the memos moved by EXACTLY the sum of the per-partition
/// changes. Implies preservation of dl_consistent (lemma_gap_consistent) and says more (it also holds from an inconsistent state).
pub open spec fn dl_gap_same(d0: Deadline, m0: Map<u64, Partition>, d1: Deadline, m1: Map<u64, Partition>) -> bool {
    &&& d1.faulty_power.raw@ - psum(m1, W::FaultyRaw) == d0.faulty_power.raw@ - psum(m0, W::FaultyRaw)
    &&& d1.faulty_power.qa@ - psum(m1, W::FaultyQa) == d0.faulty_power.qa@ - psum(m0, W::FaultyQa)
    &&& d1.live_power.raw@ - psum(m1, W::LiveRaw) == d0.live_power.raw@ - psum(m0, W::LiveRaw)
    &&& d1.live_power.qa@ - psum(m1, W::LiveQa) == d0.live_power.qa@ - psum(m0, W::LiveQa)
    &&& d1.live_sectors - psum(m1, W::CountLive) == d0.live_sectors - psum(m0, W::CountLive)
    &&& d1.total_sectors - psum(m1, W::CountTotal) == d0.total_sectors - psum(m0, W::CountTotal)
}
pub proof fn lemma_gap_consistent(d0: Deadline, m0: Map<u64, Partition>, d1: Deadline, m1: Map<u64, Partition>)
    requires dl_gap_same(d0, m0, d1, m1), dl_consistent(d0, m0)
    ensures dl_consistent(d1, m1)
{}
/// the power delta handed upward is the change of the sum of ACTIVE power
pub open spec fn is_active_delta(delta: PowerPair, m0: Map<u64, Partition>, m1: Map<u64, Partition>) -> bool {
    delta.raw@ == psum(m1, W::ActRaw) - psum(m0, W::ActRaw) && delta.qa@ == psum(m1, W::ActQa) - psum(m0, W::ActQa)
}
/// every field of the deadline except the listed ones is unchanged
pub open spec fn dl_same_but_parts_faulty_exp(a: Deadline, b: Deadline) -> bool {
    &&& a.partitions_posted == b.partitions_posted && a.early_terminations == b.early_terminations && a.live_sectors == b.live_sectors
    &&& a.total_sectors == b.total_sectors && a.optimistic_post_submissions == b.optimistic_post_submissions && a.sectors_snapshot == b.sectors_snapshot
    &&& a.partitions_snapshot == b.partitions_snapshot && a.optimistic_post_submissions_snapshot == b.optimistic_post_submissions_snapshot
    &&& a.live_power == b.live_power && a.daily_fee == b.daily_fee
}

//@ fn actors/miner/src/deadline_state.rs Deadline::partitions_amt sigsub1="Array < 'db , Partition , BS >=>Array < Partition , & 'db BS >"
    ensures r.is_ok() ==> r->Ok_0.view() == dl_parts(*self),
//@ end

// ======================= the deadline's expiration queue: which partitions MAY have sectors expiring at an epoch =======================
/// "the deadline's expiration queue names partition p at the quantised epoch of e"
pub open spec fn dl_exp_has(d: Deadline, quant: QuantSpec, e: ChainEpoch, p: u64) -> bool { bfq_decode(d.expirations_epochs).contains((bfq_quant(quant, e), p)) }
/// nothing is removed from the queue
pub open spec fn dl_exp_mono(d0: Deadline, d1: Deadline) -> bool { bfq_decode(d0.expirations_epochs).subset_of(bfq_decode(d1.expirations_epochs)) }
//@ fn actors/miner/src/deadline_state.rs Deadline::add_expiration_partitions sub1="partitions . iter () . copied ()=>partitions"
    ensures
        // only the expiration queue root moves
        *final(self) == (Deadline { expirations_epochs: final(self).expirations_epochs, ..*old(self) }),
        // every given partition is named at the (quantised) epoch afterwards, and nothing else is added or removed
        r.is_ok() ==> forall|e: ChainEpoch, p: u64| #![trigger bfq_decode(final(self).expirations_epochs).contains((e, p))]
            bfq_decode(final(self).expirations_epochs).contains((e, p)) <==>
                bfq_decode(old(self).expirations_epochs).contains((e, p)) || (e == bfq_quant(quant, expiration_epoch) && partitions@.contains(p)),
        r.is_ok() ==> dl_exp_mono(*old(self), *final(self)),
        r.is_ok() ==> forall|p: u64| partitions@.contains(p) ==> #[trigger] dl_exp_has(*final(self), quant, expiration_epoch, p),
//@ after "self . expirations_epochs ="
        proof {
            assert forall|a: (ChainEpoch, u64)| bfq_decode(old(self).expirations_epochs).contains(a) implies bfq_decode(self.expirations_epochs).contains(a) by {
                assert(a == (a.0, a.1)); assert(bfq_decode(self.expirations_epochs).contains((a.0, a.1)));
            }
            assert forall|p: u64| partitions@.contains(p) implies #[trigger] dl_exp_has(*self, quant, expiration_epoch, p) by {
                assert(bfq_decode(self.expirations_epochs).contains((bfq_quant(quant, expiration_epoch), p)));
            }
        }
//@ end

// ======================= loops over a PartitionSectorMap: exactly the named partitions are touched, each once =======================
/// the sectors that Partition::record_faults makes newly faulty: declared, not recovering, live, not faulty yet
pub open spec fn rf_new_faults(p0: Partition, sn: Set<u64>) -> Set<u64> { sn.difference(p0.recoveries@).difference(p0.terminated@).difference(p0.faults@) }
/// which Partition operation the loop applies
pub enum Op { RecordFaults, DeclareRecovered, Terminate }
/// what that operation did to one partition (p0 before, p1 after) for the sectors sn named for it
pub open spec fn pdone(op: Op, p0: Partition, p1: Partition, sn: Set<u64>) -> bool {
    match op {
        Op::RecordFaults => {
            &&& sn.subset_of(p0.sectors@)
            &&& p1.faults@ =~= p0.faults@.union(rf_new_faults(p0, sn)) && p1.recoveries@ =~= p0.recoveries@.difference(sn)
            &&& p1.sectors@ == p0.sectors@ && p1.terminated@ == p0.terminated@
            &&& pw_eqv(p1.live_power, p0.live_power)
        },
        Op::DeclareRecovered => {
            &&& sn.subset_of(p0.sectors@)
            &&& p1.recoveries@ =~= p0.recoveries@.union(sn.intersect(p0.faults@))
            &&& p1.sectors@ == p0.sectors@ && p1.terminated@ == p0.terminated@ && p1.faults@ == p0.faults@ && p1.unproven@ == p0.unproven@
            &&& pw_eqv(p1.live_power, p0.live_power) && pw_eqv(p1.faulty_power, p0.faulty_power) && pw_eqv(p1.unproven_power, p0.unproven_power)
        },
        Op::Terminate => {
            // only live sectors terminate; exactly the named ones become terminated and leave the faulty / recovering / unproven sets
            &&& sn.subset_of(p0.sectors@.difference(p0.terminated@))
            &&& p1.terminated@ =~= p0.terminated@.union(sn) && p1.faults@ =~= p0.faults@.difference(sn)
            &&& p1.recoveries@ =~= p0.recoveries@.difference(sn) && p1.unproven@ =~= p0.unproven@.difference(sn)
            &&& p1.sectors@ == p0.sectors@
        },
    }
}
/// the entries handed out by PartitionSectorMap::iter are the map, each key once, ascending
pub open spec fn entries_of(entries: Seq<(u64, &BitField)>, named: Map<u64, BitField>) -> bool {
    &&& forall|i: int| 0 <= i < entries.len() ==> named.dom().contains(#[trigger] entries[i].0) && *entries[i].1 == named[entries[i].0]
    &&& forall|i: int, j: int| 0 <= i < j < entries.len() ==> entries[i].0 < entries[j].0
    &&& forall|k: u64| named.dom().contains(k) ==> exists|i: int| 0 <= i < entries.len() && #[trigger] entries[i].0 == k
}
pub open spec fn named_inv(op: Op, entries: Seq<(u64, &BitField)>, n: int, parts0: Map<u64, Partition>, cur: Map<u64, Partition>) -> bool {
    &&& cur.dom() == parts0.dom()
    &&& forall|j: int| 0 <= j < n ==> parts0.dom().contains(#[trigger] entries[j].0) && pdone(op, parts0[entries[j].0], cur[entries[j].0], (*entries[j].1)@)
    &&& forall|j: int| n <= j < entries.len() ==> #[trigger] cur[entries[j].0] == parts0[entries[j].0]
    &&& forall|k: u64| (forall|j: int| 0 <= j < entries.len() ==> #[trigger] entries[j].0 != k) ==> #[trigger] cur[k] == parts0[k]
}
pub proof fn lemma_named_step(op: Op, entries: Seq<(u64, &BitField)>, n: int, parts0: Map<u64, Partition>, cur: Map<u64, Partition>, v: Partition)
    requires
        0 <= n < entries.len(), named_inv(op, entries, n, parts0, cur), parts0.dom().contains(entries[n].0),
        forall|i: int, j: int| 0 <= i < j < entries.len() ==> entries[i].0 < entries[j].0,
        pdone(op, parts0[entries[n].0], v, (*entries[n].1)@),
    ensures named_inv(op, entries, n + 1, parts0, cur.insert(entries[n].0, v)),
{
    let k = entries[n].0;
    let cur2 = cur.insert(k, v);
    assert(cur2.dom() =~= parts0.dom());
    assert forall|j: int| 0 <= j < n + 1 implies parts0.dom().contains(#[trigger] entries[j].0) && pdone(op, parts0[entries[j].0], cur2[entries[j].0], (*entries[j].1)@) by {
        if j < n { assert(entries[j].0 < entries[n].0); }
    }
    assert forall|j: int| n + 1 <= j < entries.len() implies #[trigger] cur2[entries[j].0] == parts0[entries[j].0] by {
        assert(entries[n].0 < entries[j].0);
    }
    assert forall|k2: u64| (forall|j: int| 0 <= j < entries.len() ==> #[trigger] entries[j].0 != k2) implies #[trigger] cur2[k2] == parts0[k2] by {
        assert(entries[n].0 != k2);
    }
}
/// at the end of the loop: the per-key statement of the contracts
pub open spec fn named_post(op: Op, named: Map<u64, BitField>, m0: Map<u64, Partition>, m1: Map<u64, Partition>) -> bool {
    // no partition appears or disappears; the partitions not named are untouched; every named partition exists and was handled with ITS sector set
    &&& m1.dom() == m0.dom()
    &&& forall|k: u64| #![trigger m1[k]] m0.dom().contains(k) && !named.dom().contains(k) ==> m1[k] == m0[k]
    &&& forall|k: u64| #![trigger m1[k]] named.dom().contains(k) ==> m0.dom().contains(k) && pdone(op, m0[k], m1[k], named[k]@)
}
pub proof fn lemma_named_end(op: Op, entries: Seq<(u64, &BitField)>, n: int, named: Map<u64, BitField>, m0: Map<u64, Partition>, m1: Map<u64, Partition>)
    requires entries_of(entries, named), named_inv(op, entries, n, m0, m1)
    ensures n == entries.len() ==> named_post(op, named, m0, m1)
{
    if n != entries.len() { return; }
    assert forall|k: u64| #![trigger m1[k]] named.dom().contains(k) implies m0.dom().contains(k) && pdone(op, m0[k], m1[k], named[k]@) by {
        let i = choose|i: int| 0 <= i < entries.len() && #[trigger] entries[i].0 == k;
        assert(pdone(op, m0[entries[i].0], m1[entries[i].0], (*entries[i].1)@));
    }
    assert forall|k: u64| #![trigger m1[k]] m0.dom().contains(k) && !named.dom().contains(k) implies m1[k] == m0[k] by {
        assert forall|j: int| 0 <= j < entries.len() implies #[trigger] entries[j].0 != k by { assert(named.dom().contains(entries[j].0)); }
    }
}

// ======================= Deadline::record_faults =======================
pub proof fn lemma_rf_exp_end(entries: Seq<(u64, &BitField)>, n: int, named: Map<u64, BitField>, parts0: Map<u64, Partition>, pwf0: Seq<u64>, pwf: Seq<u64>)
    requires
        entries_of(entries, named), 0 < n <= entries.len(),
        forall|j: int| 0 <= j < n - 1 && rf_new_faults(parts0[entries[j].0], (*entries[j].1)@).len() > 0 ==> pwf0.contains(#[trigger] entries[j].0),
        pwf == pwf0 || pwf == pwf0.push(entries[n - 1].0),
        rf_new_faults(parts0[entries[n - 1].0], (*entries[n - 1].1)@).len() > 0 ==> pwf == pwf0.push(entries[n - 1].0),
    ensures
        forall|j: int| 0 <= j < n && rf_new_faults(parts0[entries[j].0], (*entries[j].1)@).len() > 0 ==> pwf.contains(#[trigger] entries[j].0),
        n == entries.len() ==> (forall|k: u64| #![trigger parts0[k]] named.dom().contains(k) && rf_new_faults(parts0[k], named[k]@).len() > 0 ==> pwf.contains(k)),
{
    assert forall|j: int| 0 <= j < n && rf_new_faults(parts0[entries[j].0], (*entries[j].1)@).len() > 0 implies pwf.contains(#[trigger] entries[j].0) by {
        if j < n - 1 {
            let i = choose|i: int| 0 <= i < pwf0.len() && pwf0[i] == entries[j].0;
            assert(pwf[i] == entries[j].0);
        } else {
            assert(pwf[pwf0.len() as int] == entries[n - 1].0);
        }
    }
    if n == entries.len() {
        assert forall|k: u64| #![trigger parts0[k]] named.dom().contains(k) && rf_new_faults(parts0[k], named[k]@).len() > 0 implies pwf.contains(k) by {
            let i = choose|i: int| 0 <= i < entries.len() && #[trigger] entries[i].0 == k;
            assert(*entries[i].1 == named[entries[i].0]);
        }
    }
}
//@ fn actors/miner/src/deadline_state.rs Deadline::record_faults ret=res
    ensures
        res.is_ok() ==> ({
            let m0 = dl_parts(*old(self));
            let m1 = dl_parts(*final(self));
            // C04: the deadline's memos move by exactly the sum of what the partitions report — the summaries stay equal to the recomputed sums
            &&& dl_gap_same(*old(self), m0, *final(self), m1)
            &&& dl_consistent(*old(self), m0) ==> dl_consistent(*final(self), m1)
            // C02: the delta handed to the power actor is exactly the change of proven, non-faulty, unterminated power over the deadline
            &&& is_active_delta(res->Ok_0, m0, m1)
            // exactly the named partitions were touched, each by Partition::record_faults with ITS sector set
            &&& named_post(Op::RecordFaults, old(partition_sectors).view(), m0, m1)
            // nothing else of the deadline moves but the expiration queue:
            &&& dl_same_but_parts_faulty_exp(*old(self), *final(self))
            // C04 (expiration-queue summary): every partition that got NEW faults is named in the deadline's queue at the fault expiration epoch
            &&& dl_exp_mono(*old(self), *final(self))
            &&& forall|k: u64| #![trigger m0[k]] old(partition_sectors).view().dom().contains(k) && rf_new_faults(m0[k], old(partition_sectors).view()[k]@).len() > 0
                    ==> dl_exp_has(*final(self), quant, fault_expiration_epoch, k)
        }),
//@ entry
        let ghost parts0 = dl_parts(*self);
        let ghost named = partition_sectors.view();
//@ loop 0 iter=it
            invariant
                parts0 == dl_parts(*old(self)),
                entries_of(it.seq(), named),
                forall|j: int| 0 <= j < it.index@ && rf_new_faults(parts0[it.seq()[j].0], (*it.seq()[j].1)@).len() > 0 ==> partitions_with_fault@.contains(#[trigger] it.seq()[j].0),
                it.index@ == it.seq().len() ==> (forall|k: u64| #![trigger parts0[k]] named.dom().contains(k) && rf_new_faults(parts0[k], named[k]@).len() > 0 ==> partitions_with_fault@.contains(k)),
                named_inv(Op::RecordFaults, it.seq(), it.index@ as int, parts0, partitions.view()),
                it.index@ == it.seq().len() ==> named_post(Op::RecordFaults, named, parts0, partitions.view()),
                *self == (Deadline { faulty_power: self.faulty_power, ..*old(self) }),
                self.faulty_power.raw@ - psum(partitions.view(), W::FaultyRaw) == old(self).faulty_power.raw@ - psum(parts0, W::FaultyRaw),
                self.faulty_power.qa@ - psum(partitions.view(), W::FaultyQa) == old(self).faulty_power.qa@ - psum(parts0, W::FaultyQa),
                power_delta.raw@ == psum(partitions.view(), W::ActRaw) - psum(parts0, W::ActRaw),
                power_delta.qa@ == psum(partitions.view(), W::ActQa) - psum(parts0, W::ActQa),
                psum(partitions.view(), W::LiveRaw) == psum(parts0, W::LiveRaw), psum(partitions.view(), W::LiveQa) == psum(parts0, W::LiveQa),
                psum(partitions.view(), W::CountLive) == psum(parts0, W::CountLive), psum(partitions.view(), W::CountTotal) == psum(parts0, W::CountTotal),
//@ loopstart 0
            let ghost cur0 = partitions.view();
            let ghost pwf0 = partitions_with_fault@;
            proof { assert(cur0[partition_idx] == parts0[partition_idx]); }
//@ loopend 0
            proof {
                let v = partitions.view()[partition_idx];
                assert(partitions.view() == cur0.insert(partition_idx, v));
                lemma_psum_set(cur0, partition_idx, v);
                lemma_named_step(Op::RecordFaults, it.seq(), it.index@ as int, parts0, cur0, v);
                lemma_named_end(Op::RecordFaults, it.seq(), it.index@ + 1, named, parts0, partitions.view());
                lemma_rf_exp_end(it.seq(), it.index@ + 1, named, parts0, pwf0, partitions_with_fault@);
            }
//@ end

// ======================= Deadline::declare_faults_recovered =======================
//@ fn actors/miner/src/deadline_state.rs Deadline::declare_faults_recovered ret=res
    ensures
        res.is_ok() ==> ({
            let m0 = dl_parts(*old(self));
            let m1 = dl_parts(*final(self));
            // C04: no memo of the deadline moves and none of the sums does
            &&& dl_gap_same(*old(self), m0, *final(self), m1)
            &&& dl_consistent(*old(self), m0) ==> dl_consistent(*final(self), m1)
            // C02 "a sector contributes no power ... while it is faulty": declaring a recovery returns no power — the sum of active power is unchanged
            &&& psum(m1, W::ActRaw) == psum(m0, W::ActRaw) && psum(m1, W::ActQa) == psum(m0, W::ActQa)
            // exactly the named partitions were touched, each by Partition::declare_faults_recovered with ITS sector set
            &&& named_post(Op::DeclareRecovered, old(partition_sectors).view(), m0, m1)
            // only the partitions root of the deadline moves
            &&& *final(self) == (Deadline { partitions: final(self).partitions, ..*old(self) })
        }),
//@ entry
        let ghost parts0 = dl_parts(*self);
        let ghost named = partition_sectors.view();
//@ loop 0 iter=it
            invariant
                parts0 == dl_parts(*old(self)),
                entries_of(it.seq(), named),
                named_inv(Op::DeclareRecovered, it.seq(), it.index@ as int, parts0, partitions.view()),
                it.index@ == it.seq().len() ==> named_post(Op::DeclareRecovered, named, parts0, partitions.view()),
                *self == *old(self),
                forall|w: W| w != W::PenRaw && w != W::PenQa ==> #[trigger] psum(partitions.view(), w) == psum(parts0, w),
//@ loopstart 0
            let ghost cur0 = partitions.view();
            proof { assert(cur0[partition_idx] == parts0[partition_idx]); }
//@ loopend 0
            proof {
                let v = partitions.view()[partition_idx];
                assert(partitions.view() == cur0.insert(partition_idx, v));
                lemma_psum_set(cur0, partition_idx, v);
                lemma_named_step(Op::DeclareRecovered, it.seq(), it.index@ as int, parts0, cur0, v);
                lemma_named_end(Op::DeclareRecovered, it.seq(), it.index@ + 1, named, parts0, partitions.view());
            }
//@ end

// ======================= Deadline::process_deadline_end =======================
/// representation invariant of the partitions AMT (doc comment of `Deadline::partitions`: "The keys of this AMT are always sequential integers
/// beginning with zero"): maintained by add_sectors (appends at index count) and compact_partitions (rebuilds from 0)
pub open spec fn parts_dense(m: Map<u64, Partition>) -> bool { forall|k: u64| m.dom().contains(k) <==> (k as nat) < m.dom().len() }
/// sum over the partitions NOT in `skip`
pub open spec fn psum_skip(m: Map<u64, Partition>, skip: Set<u64>, w: W) -> int { psum_below(m, skip, w, u64n()) }
pub open spec fn pw_zero(x: PowerPair) -> bool { x.raw@ == 0 && x.qa@ == 0 }
/// the partition is already in the state a missed PoSt leaves behind as far as its power memos go (the code's shortcut)
pub open spec fn all_faulty_already(p: Partition) -> bool { pw_zero(p.recovering_power) && pw_eqv(p.faulty_power, p.live_power) }
/// memo-level fact that needs the sector level to be proved (faulty and unproven sectors are disjoint subsets of the live ones and every sector
/// has positive power): unproven + faulty power never exceeds live power, unproven power is never negative
pub open spec fn pw_split_ok(p: Partition) -> bool {
    &&& p.unproven_power.raw@ >= 0 && p.unproven_power.qa@ >= 0
    &&& p.unproven_power.raw@ + p.faulty_power.raw@ <= p.live_power.raw@ && p.unproven_power.qa@ + p.faulty_power.qa@ <= p.live_power.qa@
}
/// what Partition::record_missed_post did to one partition
pub open spec fn missed_done(p0: Partition, p1: Partition) -> bool {
    &&& p1.faults@ =~= p0.sectors@.difference(p0.terminated@) && p1.recoveries@ =~= Set::<u64>::empty() && p1.unproven@ =~= Set::<u64>::empty()
    &&& p1.sectors@ == p0.sectors@ && p1.terminated@ == p0.terminated@
    &&& pw_eqv(p1.live_power, p0.live_power) && pw_eqv(p1.faulty_power, p0.live_power) && pw_zero(p1.recovering_power) && pw_zero(p1.unproven_power)
    &&& act_raw(p1) == 0 && act_qa(p1) == 0
}
/// the end-of-deadline treatment of a partition that was NOT proven
pub open spec fn pde_done(p0: Partition, p1: Partition) -> bool {
    if all_faulty_already(p0) { p1 == p0 } else { missed_done(p0, p1) }
}
pub open spec fn pde_inv(parts0: Map<u64, Partition>, cur: Map<u64, Partition>, posted: Set<u64>, n: int) -> bool {
    &&& cur.dom() == parts0.dom()
    &&& forall|k: u64| #![trigger cur[k]] parts0.dom().contains(k) && (k >= n || posted.contains(k)) ==> cur[k] == parts0[k]
    &&& forall|k: u64| #![trigger cur[k]] parts0.dom().contains(k) && k < n && !posted.contains(k) ==> pde_done(parts0[k], cur[k])
}
pub proof fn lemma_pde_step(parts0: Map<u64, Partition>, cur0: Map<u64, Partition>, cur1: Map<u64, Partition>, posted: Set<u64>, n: u64)
    requires
        pde_inv(parts0, cur0, posted, n as int),
        cur1 == cur0 || (parts0.dom().contains(n) && cur1 == cur0.insert(n, cur1[n])),
        parts0.dom().contains(n) && !posted.contains(n) ==> pde_done(parts0[n], cur1[n]),
        posted.contains(n) ==> cur1 == cur0,
    ensures pde_inv(parts0, cur1, posted, n + 1),
{
    assert(cur1.dom() =~= parts0.dom());
}

/// the list of partitions to name in the expiration queue only grows, by at most the current partition
pub proof fn lemma_push_contains(s0: Seq<u64>, s1: Seq<u64>, x: u64)
    requires s1 == s0 || s1 == s0.push(x)
    ensures forall|y: u64| s0.contains(y) ==> s1.contains(y), s1 == s0.push(x) ==> s1.contains(x)
{
    assert forall|y: u64| s0.contains(y) implies s1.contains(y) by {
        let i = choose|i: int| 0 <= i < s0.len() && s0[i] == y;
        assert(s1[i] == y);
    }
    if s1 == s0.push(x) { assert(s1[s0.len() as int] == x); }
}
/// every unproven partition below n that got NEW faulty power (its live power was not all faulty yet) is in the list handed to the expiration queue
pub open spec fn pde_resched(parts0: Map<u64, Partition>, posted: Set<u64>, n: int, rs: Seq<u64>) -> bool {
    forall|k: u64| #![trigger parts0[k]] parts0.dom().contains(k) && k < n && !posted.contains(k) && !pw_eqv(parts0[k].faulty_power, parts0[k].live_power) ==> rs.contains(k)
}
pub proof fn lemma_pde_resched_step(parts0: Map<u64, Partition>, posted: Set<u64>, n: u64, rs0: Seq<u64>, rs1: Seq<u64>)
    requires
        pde_resched(parts0, posted, n as int, rs0), rs1 == rs0 || rs1 == rs0.push(n),
        parts0.dom().contains(n) && !posted.contains(n) && !pw_eqv(parts0[n].faulty_power, parts0[n].live_power) ==> rs1 == rs0.push(n),
    ensures pde_resched(parts0, posted, n + 1, rs1)
{
    lemma_push_contains(rs0, rs1, n);
}
//@ fn actors/miner/src/deadline_state.rs Deadline::process_deadline_end ret=res r20 suball1="Array :: < () , BS >=>Array :: < () , & BS >"
    requires parts_dense(dl_parts(*old(self))),
    ensures
        res.is_ok() ==> ({
            let m0 = dl_parts(*old(self));
            let m1 = dl_parts(*final(self));
            let posted = old(self).partitions_posted@;
            let (power_delta, penalized) = res->Ok_0;
            // C04: the faulty-power memo moves by exactly the sum of what the partitions report; the other memos and their sums do not move
            &&& dl_gap_same(*old(self), m0, *final(self), m1)
            &&& dl_consistent(*old(self), m0) ==> dl_consistent(*final(self), m1)
            &&& m1.dom() == m0.dom()
            // partitions that were proven in this window are untouched
            &&& forall|k: u64| #![trigger m1[k]] m0.dom().contains(k) && posted.contains(k) ==> m1[k] == m0[k]
            // C02 "a deadline that closes without a proof removes the power of its unproven partitions": EVERY partition that is not in
            // partitions_posted ends with all its live power faulty and nothing recovering (by record_missed_post, unless its memos say so already) ...
            &&& forall|k: u64| #![trigger m1[k]] m0.dom().contains(k) && !posted.contains(k) ==> pde_done(m0[k], m1[k])
                    && pw_eqv(m1[k].faulty_power, m1[k].live_power) && pw_eqv(m1[k].live_power, m0[k].live_power) && pw_zero(m1[k].recovering_power)
                    // ... and contributes NO active power (for the shortcut case this needs the sector-level fact pw_split_ok)
                    && (pw_split_ok(m0[k]) ==> act_raw(m1[k]) == 0 && act_qa(m1[k]) == 0)
            // the power delta handed to the power actor is exactly the change of the sum of active power ...
            &&& is_active_delta(power_delta, m0, m1)
            // ... and the penalised power is the sum, over exactly the partitions that were not proven, of failed recoveries + newly faulty power
            &&& penalized.raw@ == psum_skip(m0, posted, W::PenRaw) && penalized.qa@ == psum_skip(m0, posted, W::PenQa)
            // the proof window is reset and snapshotted
            &&& final(self).partitions_posted@ =~= Set::<u64>::empty()
            &&& final(self).partitions_snapshot == final(self).partitions
            &&& final(self).optimistic_post_submissions_snapshot == old(self).optimistic_post_submissions
            &&& array_decode::<()>(final(self).optimistic_post_submissions) == Map::<u64, ()>::empty()
            &&& final(self).optimistic_post_submissions != final(self).optimistic_post_submissions_snapshot ==> final(self).sectors_snapshot == sectors
            // nothing else moves but the expiration queue:
            &&& final(self).early_terminations == old(self).early_terminations && final(self).live_sectors == old(self).live_sectors
            &&& final(self).total_sectors == old(self).total_sectors && final(self).live_power == old(self).live_power && final(self).daily_fee == old(self).daily_fee
            // C04 (expiration-queue summary): every unproven partition that got NEW faulty power is named in the deadline's queue at the fault expiration epoch
            &&& dl_exp_mono(*old(self), *final(self))
            &&& forall|k: u64| #![trigger m0[k]] m0.dom().contains(k) && !posted.contains(k) && !pw_eqv(m0[k].faulty_power, m0[k].live_power)
                    ==> dl_exp_has(*final(self), quant, fault_expiration_epoch, k)
        }),
//@ entry
        let ghost parts0 = dl_parts(*self);
        let ghost posted = self.partitions_posted@;
//@ loop 0 iter=it
            invariant
                parts0 == dl_parts(*old(self)), posted == old(self).partitions_posted@, parts_dense(parts0),
                it.seq().len() == parts0.dom().len(), forall|i: int| 0 <= i < it.seq().len() ==> it.seq()[i] == i,
                pde_inv(parts0, partitions.view(), posted, it.index@ as int),
                pde_resched(parts0, posted, it.index@ as int, rescheduled_partitions@),
                !detected_any ==> partitions.view() == parts0,
                *self == (Deadline { faulty_power: self.faulty_power, ..*old(self) }),
                self.faulty_power.raw@ - psum(partitions.view(), W::FaultyRaw) == old(self).faulty_power.raw@ - psum(parts0, W::FaultyRaw),
                self.faulty_power.qa@ - psum(partitions.view(), W::FaultyQa) == old(self).faulty_power.qa@ - psum(parts0, W::FaultyQa),
                power_delta.raw@ == psum(partitions.view(), W::ActRaw) - psum(parts0, W::ActRaw),
                power_delta.qa@ == psum(partitions.view(), W::ActQa) - psum(parts0, W::ActQa),
                psum(partitions.view(), W::LiveRaw) == psum(parts0, W::LiveRaw), psum(partitions.view(), W::LiveQa) == psum(parts0, W::LiveQa),
                psum(partitions.view(), W::CountLive) == psum(parts0, W::CountLive), psum(partitions.view(), W::CountTotal) == psum(parts0, W::CountTotal),
                penalized_power.raw@ == psum_below(parts0, posted, W::PenRaw, it.index@ as nat),
                penalized_power.qa@ == psum_below(parts0, posted, W::PenQa, it.index@ as nat),
//@ loopstart 0
            let ghost cur0 = partitions.view();
            let ghost rs0 = rescheduled_partitions@;
            proof { assert(partition_idx == it.index@); assert(parts0.dom().contains(partition_idx)); assert(cur0[partition_idx] == parts0[partition_idx]); }
//@ loopend 0
            proof {
                let v = partitions.view()[partition_idx];
                if partitions.view() != cur0 {
                    assert(partitions.view() == cur0.insert(partition_idx, v));
                    lemma_psum_set(cur0, partition_idx, v);
                }
                lemma_pde_step(parts0, cur0, partitions.view(), posted, partition_idx);
                lemma_pde_resched_step(parts0, posted, partition_idx, rs0, rescheduled_partitions@);
                assert(((partition_idx + 1) as nat - 1) as u64 == partition_idx);
            }
//@ before "if detected_any"
        proof {
            lemma_psum_bounded(parts0, posted, W::PenRaw, parts0.dom().len(), u64n());
            lemma_psum_bounded(parts0, posted, W::PenQa, parts0.dom().len(), u64n());
        }
//@ end

// ======================= Deadline::record_proven_sectors =======================
/// what a PoSt covering the partition did to it: skipped sectors become faulty, the remaining declared recoveries are recovered, and every
/// unproven sector is activated (C02 "a sector contributes no power before a PoSt has covered it": afterwards nothing is unproven)
pub open spec fn prs_done(p0: Partition, p1: Partition, skipped: Set<u64>) -> bool {
    let faults1 = p0.faults@.union(skipped.difference(p0.terminated@));
    let rec1 = p0.recoveries@.difference(skipped);
    &&& skipped.subset_of(p0.sectors@)
    &&& p1.faults@ =~= faults1.difference(rec1) && p1.recoveries@ =~= Set::<u64>::empty() && p1.unproven@ =~= Set::<u64>::empty()
    &&& p1.sectors@ == p0.sectors@ && p1.terminated@ == p0.terminated@
    &&& pw_eqv(p1.live_power, p0.live_power) && pw_zero(p1.unproven_power)
}
/// the skipped sectors that become newly faulty: live and not faulty yet
pub open spec fn prs_new_faults(p0: Partition, skipped: Set<u64>) -> Set<u64> { skipped.difference(p0.terminated@).difference(p0.faults@) }
pub open spec fn prs_resched(posts: Seq<PoStPartition>, parts0: Map<u64, Partition>, n: int, rs: Seq<u64>) -> bool {
    forall|j: int| 0 <= j < n && prs_new_faults(parts0[posts[j].index], posts[j].skipped@).len() > 0 ==> rs.contains((#[trigger] posts[j]).index)
}
pub proof fn lemma_prs_resched_step(posts: Seq<PoStPartition>, parts0: Map<u64, Partition>, n: int, rs0: Seq<u64>, rs1: Seq<u64>)
    requires
        0 <= n < posts.len(), prs_resched(posts, parts0, n, rs0), rs1 == rs0 || rs1 == rs0.push(posts[n].index),
        prs_new_faults(parts0[posts[n].index], posts[n].skipped@).len() > 0 ==> rs1 == rs0.push(posts[n].index),
    ensures prs_resched(posts, parts0, n + 1, rs1)
{
    lemma_push_contains(rs0, rs1, posts[n].index);
}
pub open spec fn posts_distinct(posts: Seq<PoStPartition>) -> bool { forall|i: int, j: int| 0 <= i < j < posts.len() ==> posts[i].index != posts[j].index }
pub open spec fn posts_inv(posts: Seq<PoStPartition>, n: int, parts0: Map<u64, Partition>, cur: Map<u64, Partition>) -> bool {
    &&& cur.dom() == parts0.dom()
    &&& forall|j: int| 0 <= j < n ==> parts0.dom().contains(#[trigger] posts[j].index) && prs_done(parts0[posts[j].index], cur[posts[j].index], posts[j].skipped@)
    &&& forall|j: int| n <= j < posts.len() ==> #[trigger] cur[posts[j].index] == parts0[posts[j].index]
    &&& forall|k: u64| (forall|j: int| 0 <= j < posts.len() ==> #[trigger] posts[j].index != k) ==> #[trigger] cur[k] == parts0[k]
}
pub proof fn lemma_posts_step(posts: Seq<PoStPartition>, n: int, parts0: Map<u64, Partition>, cur: Map<u64, Partition>, v: Partition)
    requires
        0 <= n < posts.len(), posts_inv(posts, n, parts0, cur), parts0.dom().contains(posts[n].index), posts_distinct(posts),
        prs_done(parts0[posts[n].index], v, posts[n].skipped@),
    ensures posts_inv(posts, n + 1, parts0, cur.insert(posts[n].index, v)),
{
    let k = posts[n].index;
    let cur2 = cur.insert(k, v);
    assert(cur2.dom() =~= parts0.dom());
    assert forall|j: int| 0 <= j < n + 1 implies parts0.dom().contains(#[trigger] posts[j].index) && prs_done(parts0[posts[j].index], cur2[posts[j].index], posts[j].skipped@) by {
        if j < n { assert(posts[j].index != posts[n].index); }
    }
    assert forall|j: int| n + 1 <= j < posts.len() implies #[trigger] cur2[posts[j].index] == parts0[posts[j].index] by {
        assert(posts[n].index != posts[j].index);
    }
    assert forall|k2: u64| (forall|j: int| 0 <= j < posts.len() ==> #[trigger] posts[j].index != k2) implies #[trigger] cur2[k2] == parts0[k2] by {
        assert(posts[n].index != k2);
    }
}
pub open spec fn posts_post(posts: Seq<PoStPartition>, m0: Map<u64, Partition>, m1: Map<u64, Partition>) -> bool {
    &&& m1.dom() == m0.dom()
    &&& forall|j: int| 0 <= j < posts.len() ==> m0.dom().contains(#[trigger] posts[j].index) && prs_done(m0[posts[j].index], m1[posts[j].index], posts[j].skipped@)
    &&& forall|k: u64| (forall|j: int| 0 <= j < posts.len() ==> #[trigger] posts[j].index != k) ==> #[trigger] m1[k] == m0[k]
}
pub open spec fn post_index_set(posts: Seq<PoStPartition>) -> Set<u64> { posts.map_values(|p: PoStPartition| p.index).to_set() }
pub proof fn lemma_posts_distinct(posts: Seq<PoStPartition>, idx: Seq<u64>)
    requires idx.len() == posts.len(), forall|i: int| 0 <= i < idx.len() ==> idx[i] == posts[i].index, idx.to_set().len() == idx.len()
    ensures posts_distinct(posts), idx.to_set() == post_index_set(posts)
{
    idx.lemma_no_dup_set_cardinality();
    assert(idx =~= posts.map_values(|p: PoStPartition| p.index));
    assert forall|i: int, j: int| 0 <= i < j < posts.len() implies posts[i].index != posts[j].index by { assert(idx[i] != idx[j]); }
}

//@ fn actors/miner/src/deadline_state.rs Deadline::record_proven_sectors ret=res sigsub1="post_partitions : & mut [PoStPartition]=>post_partitions : & [PoStPartition]" sub1="post_partitions . iter () . map (| p | p . index)=>vx_post_indexes (post_partitions)"
    ensures
        res.is_ok() ==> ({
            let m0 = dl_parts(*old(self));
            let m1 = dl_parts(*final(self));
            let posts = post_partitions@;
            // no partition is proven twice, neither within the message nor within the window; the proven ones are recorded
            &&& posts_distinct(posts) && old(self).partitions_posted@.disjoint(post_index_set(posts))
            &&& final(self).partitions_posted@ =~= old(self).partitions_posted@.union(post_index_set(posts)) && res->Ok_0.partitions@ == post_index_set(posts)
            // C04: the faulty-power memo moves by exactly the sum of what the partitions report (recovered power out, skipped faults in)
            &&& dl_gap_same(*old(self), m0, *final(self), m1)
            &&& dl_consistent(*old(self), m0) ==> dl_consistent(*final(self), m1)
            &&& final(self).faulty_power.raw@ == old(self).faulty_power.raw@ - res->Ok_0.recovered_power.raw@ + res->Ok_0.new_faulty_power.raw@
            &&& final(self).faulty_power.qa@ == old(self).faulty_power.qa@ - res->Ok_0.recovered_power.qa@ + res->Ok_0.new_faulty_power.qa@
            // C02: the delta handed to the power actor (activated + recovered - newly faulty) is exactly the change of the sum of active power
            &&& is_active_delta(res->Ok_0.power_delta, m0, m1)
            // exactly the proven partitions were touched, each: skipped faults recorded, recoveries recovered, unproven sectors activated
            &&& posts_post(posts, m0, m1)
            // C04 (expiration-queue summary): every proven partition in which a skipped sector became faulty is named in the queue at the fault expiration epoch
            &&& dl_exp_mono(*old(self), *final(self))
            &&& forall|j: int| 0 <= j < posts.len() && prs_new_faults(m0[posts[j].index], posts[j].skipped@).len() > 0
                    ==> dl_exp_has(*final(self), quant, fault_expiration, (#[trigger] posts[j]).index)
            // nothing else of the deadline moves but the expiration queue:
            &&& final(self).early_terminations == old(self).early_terminations && final(self).live_sectors == old(self).live_sectors
            &&& final(self).total_sectors == old(self).total_sectors && final(self).live_power == old(self).live_power && final(self).daily_fee == old(self).daily_fee
            &&& final(self).optimistic_post_submissions == old(self).optimistic_post_submissions && final(self).sectors_snapshot == old(self).sectors_snapshot
            &&& final(self).partitions_snapshot == old(self).partitions_snapshot && final(self).optimistic_post_submissions_snapshot == old(self).optimistic_post_submissions_snapshot
        }),
//@ entry
        let ghost parts0 = dl_parts(*self);
        let ghost posts = post_partitions@;
//@ before "let mut partitions = self . partitions_amt (store)"
        proof {
            lemma_posts_distinct(posts, vx_post_index_seq(posts));
            assert forall|a: u64| self.partitions_posted@.contains(a) implies !partition_indexes@.contains(a) by {
                if partition_indexes@.contains(a) { assert(self.partitions_posted@.intersect(partition_indexes@).contains(a)); }
            }
        }
//@ loop 0 iter=it
            invariant
                parts0 == dl_parts(*old(self)), posts == post_partitions@, posts_distinct(posts),
                it.seq().len() == posts.len(), forall|i: int| 0 <= i < it.seq().len() ==> *it.seq()[i] == posts[i],
                posts_inv(posts, it.index@ as int, parts0, partitions.view()),
                prs_resched(posts, parts0, it.index@ as int, rescheduled_partitions@),
                *self == (Deadline { partitions_posted: self.partitions_posted, ..*old(self) }),
                self.partitions_posted@ =~= old(self).partitions_posted@.union(posts.subrange(0, it.index@ as int).map_values(|p: PoStPartition| p.index).to_set()),
                new_faulty_power_total.raw@ - recovered_power_total.raw@ == psum(partitions.view(), W::FaultyRaw) - psum(parts0, W::FaultyRaw),
                new_faulty_power_total.qa@ - recovered_power_total.qa@ == psum(partitions.view(), W::FaultyQa) - psum(parts0, W::FaultyQa),
                power_delta.raw@ == psum(partitions.view(), W::ActRaw) - psum(parts0, W::ActRaw),
                power_delta.qa@ == psum(partitions.view(), W::ActQa) - psum(parts0, W::ActQa),
                psum(partitions.view(), W::LiveRaw) == psum(parts0, W::LiveRaw), psum(partitions.view(), W::LiveQa) == psum(parts0, W::LiveQa),
                psum(partitions.view(), W::CountLive) == psum(parts0, W::CountLive), psum(partitions.view(), W::CountTotal) == psum(parts0, W::CountTotal),
//@ loopstart 0
            let ghost cur0 = partitions.view();
            let ghost n = it.index@ as int;
            let ghost rs0 = rescheduled_partitions@;
            proof { assert(*post == posts[n]); assert(cur0[post.index] == parts0[post.index]); }
//@ loopend 0
            proof {
                let v = partitions.view()[post.index];
                assert(partitions.view() == cur0.insert(post.index, v));
                lemma_psum_set(cur0, post.index, v);
                lemma_posts_step(posts, n, parts0, cur0, v);
                lemma_prs_resched_step(posts, parts0, n, rs0, rescheduled_partitions@);
                let f = |p: PoStPartition| p.index;
                assert(posts.subrange(0, n + 1).map_values(f) =~= posts.subrange(0, n).map_values(f).push(post.index));
                assert(posts.subrange(0, n + 1).map_values(f).to_set() =~= posts.subrange(0, n).map_values(f).to_set().insert(post.index)) by {
                    posts.subrange(0, n).map_values(f).lemma_push_to_set_commute(post.index);
                }
            }
//@ before "self . add_expiration_partitions"
        proof { assert(posts.subrange(0, posts.len() as int) =~= posts); }
//@ end

// ======================= Deadline::terminate_sectors =======================
//@ fn actors/miner/src/expiration_queue.rs ExpirationSet::is_empty
    ensures r == (self.on_time_sectors@ =~= Set::<u64>::empty() && self.early_sectors@ =~= Set::<u64>::empty()),
//@ end
//@ fn actors/miner/src/expiration_queue.rs ExpirationSet::len ops=keep
    requires self.on_time_sectors@.len() + self.early_sectors@.len() <= u64::MAX,
    ensures r == self.on_time_sectors@.len() + self.early_sectors@.len(),
//@ end
/// a sum of sizes is at least each of its terms
pub proof fn lemma_psum_count_ge(m: Map<u64, Partition>, w: W, k: u64, n: nat)
    requires w == W::CountLive || w == W::CountTotal, n <= u64n()
    ensures psum_below(m, Set::<u64>::empty(), w, n) >= (if k < n && m.dom().contains(k) { pval(w, m[k]) } else { 0 }), psum_below(m, Set::<u64>::empty(), w, n) >= 0
    decreases n
{
    if n > 0 { lemma_psum_count_ge(m, w, k, (n - 1) as nat); }
}
/// |A \ (T u G)| == |A \ T| - |G| when G is a subset of A \ T
pub proof fn lemma_len_remove(a: Set<u64>, t: Set<u64>, g: Set<u64>)
    requires g.subset_of(a.difference(t))
    ensures a.difference(t.union(g)).len() == a.difference(t).len() - g.len(), g.len() <= a.difference(t).len()
{
    let live = a.difference(t);
    let rest = a.difference(t.union(g));
    assert(rest =~= live.difference(g));
    vstd::set_lib::lemma_set_disjoint_lens(rest, g);
    assert(rest + g =~= live);
}
/// the partition index k was marked as having early terminations by one of the first n entries
pub open spec fn et_hit(entries: Seq<(u64, &BitField)>, n: int, k: u64) -> bool {
    exists|j: int| 0 <= j < n && #[trigger] entries[j].0 == k && (*entries[j].1)@.len() > 0
}
pub open spec fn et_inv(et: Set<u64>, et0: Set<u64>, entries: Seq<(u64, &BitField)>, n: int) -> bool {
    forall|k: u64| et.contains(k) <==> et0.contains(k) || et_hit(entries, n, k)
}
/// every partition that lost a sector is flagged for early-termination processing, no other flag is set or cleared
pub open spec fn et_post(et: Set<u64>, et0: Set<u64>, named: Map<u64, BitField>) -> bool {
    forall|k: u64| et.contains(k) <==> et0.contains(k) || (named.dom().contains(k) && named[k]@.len() > 0)
}
pub proof fn lemma_et_step(et: Set<u64>, et1: Set<u64>, et0: Set<u64>, entries: Seq<(u64, &BitField)>, n: int)
    requires 0 <= n < entries.len(), et_inv(et, et0, entries, n), et1 == (if (*entries[n].1)@.len() > 0 { et.insert(entries[n].0) } else { et })
    ensures et_inv(et1, et0, entries, n + 1)
{
    assert forall|k: u64| et1.contains(k) <==> et0.contains(k) || et_hit(entries, n + 1, k) by {
        if et_hit(entries, n, k) { let j = choose|j: int| 0 <= j < n && #[trigger] entries[j].0 == k && (*entries[j].1)@.len() > 0; assert(0 <= j < n + 1); }
        if et_hit(entries, n + 1, k) && !et_hit(entries, n, k) {
            let j = choose|j: int| 0 <= j < n + 1 && #[trigger] entries[j].0 == k && (*entries[j].1)@.len() > 0;
            assert(j == n);
        }
        if k == entries[n].0 && (*entries[n].1)@.len() > 0 { assert(entries[n].0 == k); }
    }
}
pub proof fn lemma_et_end(et: Set<u64>, et0: Set<u64>, entries: Seq<(u64, &BitField)>, n: int, named: Map<u64, BitField>)
    requires entries_of(entries, named), et_inv(et, et0, entries, n)
    ensures n == entries.len() ==> et_post(et, et0, named)
{
    if n != entries.len() { return; }
    assert forall|k: u64| et_hit(entries, n, k) <==> (named.dom().contains(k) && named[k]@.len() > 0) by {
        if named.dom().contains(k) && named[k]@.len() > 0 {
            let i = choose|i: int| 0 <= i < entries.len() && #[trigger] entries[i].0 == k;
            assert(*entries[i].1 == named[entries[i].0]);
        }
        if et_hit(entries, n, k) {
            let j = choose|j: int| 0 <= j < n && #[trigger] entries[j].0 == k && (*entries[j].1)@.len() > 0;
            assert(named.dom().contains(entries[j].0) && *entries[j].1 == named[entries[j].0]);
        }
    }
}

//@ fn actors/miner/src/deadline_state.rs Deadline::terminate_sectors ret=res
    requires
        // the live-sector memo does not under-count (part of dl_consistent): needed for `self.live_sectors -= removed.len()` not to underflow
        old(self).live_sectors >= count_live(dl_parts(*old(self))),
    ensures
        res.is_ok() ==> ({
            let m0 = dl_parts(*old(self));
            let m1 = dl_parts(*final(self));
            let named = old(partition_sectors).view();
            // C04: ALL memos (faulty power, live power, live and total sector counts) move by exactly the sum of the per-partition changes
            &&& dl_gap_same(*old(self), m0, *final(self), m1)
            &&& dl_consistent(*old(self), m0) ==> dl_consistent(*final(self), m1)
            // C02 "a sector contributes no power ... after it has ... been terminated": the power reported lost is exactly the drop of active power
            &&& res->Ok_0.raw@ == psum(m0, W::ActRaw) - psum(m1, W::ActRaw) && res->Ok_0.qa@ == psum(m0, W::ActQa) - psum(m1, W::ActQa)
            // exactly the named partitions were touched, each loses exactly ITS named sectors, which must be live
            &&& named_post(Op::Terminate, named, m0, m1)
            // every partition that lost a sector is flagged for early-termination processing, no other flag is set or cleared
            &&& et_post(final(self).early_terminations@, old(self).early_terminations@, named)
            // the rest of the deadline (but the daily-fee memo, which follows the fees the expiration queues report) is unchanged
            &&& final(self).partitions_posted == old(self).partitions_posted && final(self).expirations_epochs == old(self).expirations_epochs
            &&& final(self).optimistic_post_submissions == old(self).optimistic_post_submissions && final(self).sectors_snapshot == old(self).sectors_snapshot
            &&& final(self).partitions_snapshot == old(self).partitions_snapshot && final(self).optimistic_post_submissions_snapshot == old(self).optimistic_post_submissions_snapshot
        }),
//@ entry
        let ghost parts0 = dl_parts(*self);
        let ghost named = partition_sectors.view();
//@ loop 0 iter=it
            invariant
                parts0 == dl_parts(*old(self)),
                entries_of(it.seq(), named),
                named_inv(Op::Terminate, it.seq(), it.index@ as int, parts0, partitions.view()),
                it.index@ == it.seq().len() ==> named_post(Op::Terminate, named, parts0, partitions.view()),
                *self == (Deadline { faulty_power: self.faulty_power, live_power: self.live_power, live_sectors: self.live_sectors, daily_fee: self.daily_fee,
                    early_terminations: self.early_terminations, ..*old(self) }),
                et_inv(self.early_terminations@, old(self).early_terminations@, it.seq(), it.index@ as int),
                it.index@ == it.seq().len() ==> et_post(self.early_terminations@, old(self).early_terminations@, named),
                old(self).live_sectors >= psum(parts0, W::CountLive),
                dl_gap_same(*old(self), parts0, *self, partitions.view()),
                power_lost.raw@ == psum(parts0, W::ActRaw) - psum(partitions.view(), W::ActRaw),
                power_lost.qa@ == psum(parts0, W::ActQa) - psum(partitions.view(), W::ActQa),
//@ loopstart 0
            let ghost cur0 = partitions.view();
            let ghost et0 = self.early_terminations@;
            let ghost n = it.index@ as int;
            proof {
                lemma_psum_count_ge(cur0, W::CountLive, partition_idx, u64n());
                // facts about set sizes, stated ahead of the call whose result they are used on (no in-body anchor needed)
                let live_k = parts0[partition_idx].sectors@.difference(parts0[partition_idx].terminated@);
                assert(sector_numbers@.subset_of(live_k) ==> sector_numbers@.len() <= live_k.len()) by {
                    if sector_numbers@.subset_of(live_k) { lemma_len_remove(parts0[partition_idx].sectors@, parts0[partition_idx].terminated@, sector_numbers@); }
                }
                assert forall|a: Set<u64>, b: Set<u64>| a.disjoint(b) implies #[trigger] a.union(b).len() == a.len() + b.len() by {
                    vstd::set_lib::lemma_set_disjoint_lens(a, b); assert(a + b =~= a.union(b));
                }
            }
//@ loopend 0
            proof {
                let v = partitions.view()[partition_idx];
                assert(partitions.view() == cur0.insert(partition_idx, v));
                lemma_psum_set(cur0, partition_idx, v);
                lemma_len_remove(parts0[partition_idx].sectors@, parts0[partition_idx].terminated@, sector_numbers@);
                lemma_named_step(Op::Terminate, it.seq(), n, parts0, cur0, v);
                lemma_named_end(Op::Terminate, it.seq(), n + 1, named, parts0, partitions.view());
                assert(v.terminated@ =~= parts0[partition_idx].terminated@.union(sector_numbers@));
                lemma_et_step(et0, self.early_terminations@, old(self).early_terminations@, it.seq(), n);
                lemma_et_end(self.early_terminations@, old(self).early_terminations@, it.seq(), n + 1, named);
            }
//@ end

// ======================= Deadline::pop_expired_sectors =======================
// derive(Default) of ExpirationSet re-stated (derives are stripped by the extractor); verified, not assumed
impl Default for ExpirationSet {
    fn default() -> (r: Self)
        ensures r.on_time_sectors@ == Set::<u64>::empty(), r.early_sectors@ == Set::<u64>::empty(), r.on_time_pledge@ == 0, pw_zero(r.active_power), pw_zero(r.faulty_power), r.fee_deduction@ == 0
    {
        ExpirationSet { on_time_sectors: BitField::new(), early_sectors: BitField::new(), on_time_pledge: TokenAmount::zero(), active_power: PowerPair::zero(),
            faulty_power: PowerPair::zero(), fee_deduction: TokenAmount::zero() }
    }
}
//@ fn actors/miner/src/expiration_queue.rs ExpirationSet::empty
    ensures r.on_time_sectors@ == Set::<u64>::empty(), r.early_sectors@ == Set::<u64>::empty(), r.on_time_pledge@ == 0, pw_zero(r.active_power), pw_zero(r.faulty_power), r.fee_deduction@ == 0,
//@ end
/// the partitions the deadline's expiration queue names at some epoch <= until
pub open spec fn dl_exp_due(d: Deadline, until: ChainEpoch, p: u64) -> bool { exists|e: ChainEpoch| e <= until && #[trigger] bfq_decode(d.expirations_epochs).contains((e, p)) }
//@ fn actors/miner/src/deadline_state.rs Deadline::pop_expired_partitions
    ensures
        // only the expiration queue root moves
        *final(self) == (Deadline { expirations_epochs: final(self).expirations_epochs, ..*old(self) }),
        // exactly the partitions named at an epoch <= until are returned, and exactly those entries leave the queue
        r.is_ok() ==> forall|p: u64| #![trigger r->Ok_0.0@.contains(p)] #![trigger dl_exp_due(*old(self), until, p)] r->Ok_0.0@.contains(p) <==> dl_exp_due(*old(self), until, p),
        r.is_ok() ==> forall|e: ChainEpoch, p: u64| #![trigger bfq_decode(final(self).expirations_epochs).contains((e, p))]
            bfq_decode(final(self).expirations_epochs).contains((e, p)) <==> bfq_decode(old(self).expirations_epochs).contains((e, p)) && e > until,
        r.is_ok() && !r->Ok_0.1 ==> r->Ok_0.0@ == Set::<u64>::empty(),
//@ end

/// C04 "every on-chain sector belongs to exactly one partition of exactly one deadline": within a deadline, the partitions' sector sets are disjoint
pub open spec fn parts_disjoint(m: Map<u64, Partition>) -> bool {
    forall|k1: u64, k2: u64, b: u64| m.dom().contains(k1) && m.dom().contains(k2) && k1 != k2 && #[trigger] m[k1].sectors@.contains(b) ==> !(#[trigger] m[k2].sectors@.contains(b))
}
/// what Partition::pop_expired_sectors did to one partition: some live sectors became terminated (and left the fault set); nothing was unproven or recovering
pub open spec fn pe_done(p0: Partition, p1: Partition) -> bool {
    let expired = p1.terminated@.difference(p0.terminated@);
    &&& p0.terminated@.subset_of(p1.terminated@) && expired.subset_of(p0.sectors@.difference(p0.terminated@))
    &&& p1.faults@ =~= p0.faults@.difference(expired)
    &&& p0.unproven@ =~= Set::<u64>::empty() && p0.recoveries@ =~= Set::<u64>::empty()
    &&& p1.sectors@ == p0.sectors@ && p1.unproven@ == p0.unproven@ && p1.recoveries@ == p0.recoveries@
}
pub open spec fn pe_inv(keys: Seq<u64>, n: int, parts0: Map<u64, Partition>, cur: Map<u64, Partition>) -> bool {
    &&& cur.dom() == parts0.dom()
    &&& forall|j: int| 0 <= j < n ==> parts0.dom().contains(#[trigger] keys[j]) && pe_done(parts0[keys[j]], cur[keys[j]])
    &&& forall|j: int| n <= j < keys.len() ==> #[trigger] cur[keys[j]] == parts0[keys[j]]
    &&& forall|k: u64| (forall|j: int| 0 <= j < keys.len() ==> #[trigger] keys[j] != k) ==> #[trigger] cur[k] == parts0[k]
}
pub open spec fn keys_ascending(keys: Seq<u64>) -> bool { forall|i: int, j: int| 0 <= i < j < keys.len() ==> keys[i] < keys[j] }
pub proof fn lemma_pe_step(keys: Seq<u64>, n: int, parts0: Map<u64, Partition>, cur: Map<u64, Partition>, v: Partition)
    requires 0 <= n < keys.len(), pe_inv(keys, n, parts0, cur), parts0.dom().contains(keys[n]), keys_ascending(keys), pe_done(parts0[keys[n]], v),
    ensures pe_inv(keys, n + 1, parts0, cur.insert(keys[n], v)),
{
    let cur2 = cur.insert(keys[n], v);
    assert(cur2.dom() =~= parts0.dom());
    assert forall|j: int| 0 <= j < n + 1 implies parts0.dom().contains(#[trigger] keys[j]) && pe_done(parts0[keys[j]], cur2[keys[j]]) by {
        if j < n { assert(keys[j] < keys[n]); }
    }
    assert forall|j: int| n + 1 <= j < keys.len() implies #[trigger] cur2[keys[j]] == parts0[keys[j]] by { assert(keys[n] < keys[j]); }
    assert forall|k2: u64| (forall|j: int| 0 <= j < keys.len() ==> #[trigger] keys[j] != k2) implies #[trigger] cur2[k2] == parts0[k2] by { assert(keys[n] != k2); }
}
/// the postcondition per partition: every partition is either untouched or had live sectors expired
pub open spec fn pe_post(m0: Map<u64, Partition>, m1: Map<u64, Partition>) -> bool {
    &&& m1.dom() == m0.dom()
    &&& forall|k: u64| #![trigger m1[k]] m0.dom().contains(k) ==> m1[k] == m0[k] || pe_done(m0[k], m1[k])
}
pub proof fn lemma_pe_end(keys: Seq<u64>, n: int, m0: Map<u64, Partition>, m1: Map<u64, Partition>)
    requires pe_inv(keys, n, m0, m1)
    ensures n == keys.len() ==> pe_post(m0, m1) && (forall|k: u64| #![trigger m1[k]] keys.to_set().contains(k) ==> m0.dom().contains(k) && pe_done(m0[k], m1[k]))
{
    if n != keys.len() { return; }
    assert forall|k: u64| #![trigger m1[k]] keys.to_set().contains(k) implies m0.dom().contains(k) && pe_done(m0[k], m1[k]) by {
        let j = choose|j: int| 0 <= j < keys.len() && keys[j] == k;
        assert(pe_done(m0[keys[j]], m1[keys[j]]));
    }
    assert forall|k: u64| #![trigger m1[k]] m0.dom().contains(k) implies m1[k] == m0[k] || pe_done(m0[k], m1[k]) by {
        if exists|j: int| 0 <= j < keys.len() && keys[j] == k {
            let j = choose|j: int| 0 <= j < keys.len() && keys[j] == k;
            assert(pe_done(m0[keys[j]], m1[keys[j]]));
        }
    }
}
/// the sectors collected so far (acc) all belong to partitions already processed (done)
pub open spec fn own_hit(done: Set<u64>, parts0: Map<u64, Partition>, b: u64) -> bool {
    exists|k: u64| done.contains(k) && parts0.dom().contains(k) && #[trigger] parts0[k].sectors@.contains(b)
}
pub open spec fn owned(acc: Set<u64>, done: Set<u64>, parts0: Map<u64, Partition>) -> bool {
    forall|b: u64| #![trigger acc.contains(b)] acc.contains(b) ==> own_hit(done, parts0, b)
}
pub proof fn lemma_union_step(v: Seq<BitField>, acc: Set<u64>, x: BitField)
    requires bf_union_is(v, acc)
    ensures bf_union_is(v.push(x), acc.union(x@))
{
    let v2 = v.push(x);
    assert forall|b: u64| acc.union(x@).contains(b) <==> (exists|i: int| 0 <= i < v2.len() && (#[trigger] v2[i])@.contains(b)) by {
        if acc.contains(b) { let i = choose|i: int| 0 <= i < v.len() && (#[trigger] v[i])@.contains(b); assert(v2[i]@.contains(b)); }
        if x@.contains(b) { assert(v2[v.len() as int]@.contains(b)); }
        if exists|i: int| 0 <= i < v2.len() && (#[trigger] v2[i])@.contains(b) {
            let i = choose|i: int| 0 <= i < v2.len() && (#[trigger] v2[i])@.contains(b);
            if i < v.len() { assert(v[i]@.contains(b)); }
        }
    }
}
/// one step of the count bookkeeping: the sectors g that expire in partition k are new to the collection, so sizes add up
pub proof fn lemma_collect_step(acc_on: Set<u64>, acc_early: Set<u64>, done: Set<u64>, parts0: Map<u64, Partition>, k: u64, on: Set<u64>, early: Set<u64>)
    requires
        parts_disjoint(parts0), parts0.dom().contains(k), !done.contains(k), owned(acc_on.union(acc_early), done, parts0),
        acc_on.disjoint(acc_early), on.disjoint(early), on.union(early).subset_of(parts0[k].sectors@.difference(parts0[k].terminated@)),
    ensures
        acc_on.union(on).disjoint(acc_early.union(early)),
        acc_on.union(on).len() + acc_early.union(early).len() == acc_on.len() + acc_early.len() + on.union(early).len(),
        owned(acc_on.union(on).union(acc_early.union(early)), done.insert(k), parts0),
{
    let acc = acc_on.union(acc_early);
    let g = on.union(early);
    assert forall|b: u64| g.contains(b) implies !acc.contains(b) by {
        if acc.contains(b) {
            let k0 = choose|k0: u64| done.contains(k0) && parts0.dom().contains(k0) && #[trigger] parts0[k0].sectors@.contains(b);
            assert(parts0[k].sectors@.contains(b)); assert(k0 != k);
        }
    }
    assert(acc_on.disjoint(on)) by { assert forall|b: u64| acc_on.contains(b) implies !on.contains(b) by { if on.contains(b) { assert(g.contains(b)); assert(acc.contains(b)); } } }
    assert(acc_early.disjoint(early)) by { assert forall|b: u64| acc_early.contains(b) implies !early.contains(b) by { if early.contains(b) { assert(g.contains(b)); assert(acc.contains(b)); } } }
    assert forall|b: u64| acc_on.union(on).contains(b) implies !acc_early.union(early).contains(b) by {
        if acc_on.contains(b) && early.contains(b) { assert(g.contains(b)); assert(acc.contains(b)); }
        if on.contains(b) && acc_early.contains(b) { assert(g.contains(b)); assert(acc.contains(b)); }
    }
    vstd::set_lib::lemma_set_disjoint_lens(acc_on, on);
    vstd::set_lib::lemma_set_disjoint_lens(acc_early, early);
    vstd::set_lib::lemma_set_disjoint_lens(on, early);
    assert(acc_on + on =~= acc_on.union(on)); assert(acc_early + early =~= acc_early.union(early)); assert(on + early =~= g);
    let acc2 = acc_on.union(on).union(acc_early.union(early));
    assert forall|b: u64| #![trigger acc2.contains(b)] acc2.contains(b) implies own_hit(done.insert(k), parts0, b) by {
        if g.contains(b) { assert(parts0[k].sectors@.contains(b)); }
        else {
            assert(acc.contains(b));
            let k0 = choose|k0: u64| done.contains(k0) && parts0.dom().contains(k0) && #[trigger] parts0[k0].sectors@.contains(b);
            assert(done.insert(k).contains(k0));
        }
    }
}

//@ fn actors/miner/src/deadline_state.rs Deadline::pop_expired_sectors ret=res
    requires
        // C04: a sector is in one partition only; the live-sector memo does not under-count (needed for `self.live_sectors -= ...` not to underflow)
        parts_disjoint(dl_parts(*old(self))), old(self).live_sectors >= count_live(dl_parts(*old(self))),
    ensures
        res.is_ok() ==> ({
            let m0 = dl_parts(*old(self));
            let m1 = dl_parts(*final(self));
            // C04: ALL memos (faulty power, live power, live and total sector counts) move by exactly the sum of the per-partition changes
            &&& dl_gap_same(*old(self), m0, *final(self), m1)
            &&& dl_consistent(*old(self), m0) ==> dl_consistent(*final(self), m1)
            // C02 "a sector contributes no power ... after it has expired": the active power reported as expired is exactly the drop of active power
            &&& res->Ok_0.active_power.raw@ == psum(m0, W::ActRaw) - psum(m1, W::ActRaw) && res->Ok_0.active_power.qa@ == psum(m0, W::ActQa) - psum(m1, W::ActQa)
            &&& res->Ok_0.faulty_power.raw@ == psum(m0, W::FaultyRaw) - psum(m1, W::FaultyRaw) && res->Ok_0.faulty_power.qa@ == psum(m0, W::FaultyQa) - psum(m1, W::FaultyQa)
            // every partition is untouched or had some of its LIVE sectors terminated; a sector is reported at most once and the number reported is the drop of the live count
            &&& pe_post(m0, m1)
            // C04 (expiration-queue summary): EVERY partition the deadline's queue names at an epoch <= until exists and had its expired sectors popped
            // (which fails unless nothing in it is unproven or recovering); those entries leave the queue, the others stay
            &&& forall|k: u64| #![trigger dl_exp_due(*old(self), until, k)] dl_exp_due(*old(self), until, k) ==> m0.dom().contains(k) && pe_done(m0[k], m1[k])
            &&& forall|e: ChainEpoch, p: u64| #![trigger bfq_decode(final(self).expirations_epochs).contains((e, p))]
                    bfq_decode(final(self).expirations_epochs).contains((e, p)) <==> bfq_decode(old(self).expirations_epochs).contains((e, p)) && e > until
            &&& res->Ok_0.on_time_sectors@.disjoint(res->Ok_0.early_sectors@)
            &&& res->Ok_0.on_time_sectors@.len() + res->Ok_0.early_sectors@.len() == count_live(m0) - count_live(m1)
            // early-termination flags are only ever added here
            &&& old(self).early_terminations@.subset_of(final(self).early_terminations@)
            // the daily-fee memo drops by exactly the fee deduction reported upward (the per-sector fees live in the partitions' expiration queues: assumed)
            &&& final(self).daily_fee@ == old(self).daily_fee@ - res->Ok_0.fee_deduction@
            // the rest of the deadline (but the expiration queue root) is unchanged
            &&& final(self).partitions_posted == old(self).partitions_posted && final(self).total_sectors == old(self).total_sectors
            &&& final(self).optimistic_post_submissions == old(self).optimistic_post_submissions && final(self).sectors_snapshot == old(self).sectors_snapshot
            &&& final(self).partitions_snapshot == old(self).partitions_snapshot && final(self).optimistic_post_submissions_snapshot == old(self).optimistic_post_submissions_snapshot
        }),
//@ entry
        let ghost parts0 = dl_parts(*self);
        let ghost mut acc_on = Set::<u64>::empty();
        let ghost mut acc_early = Set::<u64>::empty();
        let ghost mut done = Set::<u64>::empty();
//@ loop 0 iter=it
            invariant
                parts0 == dl_parts(*old(self)), parts_disjoint(parts0), old(self).live_sectors >= psum(parts0, W::CountLive),
                keys_ascending(it.seq()),
                pe_inv(it.seq(), it.index@ as int, parts0, partitions.view()),
                it.index@ == it.seq().len() ==> pe_post(parts0, partitions.view()),
                it.seq().to_set() == expired_partitions@,
                it.index@ == it.seq().len() ==> (forall|k: u64| #![trigger partitions.view()[k]] expired_partitions@.contains(k) ==> parts0.dom().contains(k) && pe_done(parts0[k], partitions.view()[k])),
                *self == (Deadline { expirations_epochs: self.expirations_epochs, ..*old(self) }),
                forall|j: int| it.index@ <= j < it.seq().len() ==> !done.contains(#[trigger] it.seq()[j]),
                bf_union_is(on_time_sectors@, acc_on), bf_union_is(early_sectors@, acc_early), acc_on.disjoint(acc_early),
                owned(acc_on.union(acc_early), done, parts0),
                acc_on.len() + acc_early.len() == psum(parts0, W::CountLive) - psum(partitions.view(), W::CountLive),
                psum(partitions.view(), W::CountTotal) == psum(parts0, W::CountTotal),
                all_faulty_power.raw@ == psum(parts0, W::FaultyRaw) - psum(partitions.view(), W::FaultyRaw),
                all_faulty_power.qa@ == psum(parts0, W::FaultyQa) - psum(partitions.view(), W::FaultyQa),
                all_active_power.raw@ + all_faulty_power.raw@ == psum(parts0, W::LiveRaw) - psum(partitions.view(), W::LiveRaw),
                all_active_power.qa@ + all_faulty_power.qa@ == psum(parts0, W::LiveQa) - psum(partitions.view(), W::LiveQa),
                all_active_power.raw@ == psum(parts0, W::ActRaw) - psum(partitions.view(), W::ActRaw),
                all_active_power.qa@ == psum(parts0, W::ActQa) - psum(partitions.view(), W::ActQa),
//@ loopstart 0
            let ghost cur0 = partitions.view();
            let ghost n = it.index@ as int;
            let ghost on0 = on_time_sectors@;
            let ghost early0 = early_sectors@;
//@ loopend 0
            proof {
                let v = partitions.view()[partition_idx];
                assert(partitions.view() == cur0.insert(partition_idx, v));
                lemma_psum_set(cur0, partition_idx, v);
                let p0 = parts0[partition_idx];
                let on = on_time_sectors@[on0.len() as int]@;
                let early = early_sectors@[early0.len() as int]@;
                assert(on_time_sectors@ =~= on0.push(on_time_sectors@[on0.len() as int]));
                assert(early_sectors@ =~= early0.push(early_sectors@[early0.len() as int]));
                lemma_union_step(on0, acc_on, on_time_sectors@[on0.len() as int]);
                lemma_union_step(early0, acc_early, early_sectors@[early0.len() as int]);
                lemma_collect_step(acc_on, acc_early, done, parts0, partition_idx, on, early);
                lemma_len_remove(p0.sectors@, p0.terminated@, on.union(early));
                assert(v.terminated@ =~= p0.terminated@.union(on.union(early)));
                assert(v.terminated@.difference(p0.terminated@) =~= on.union(early));
                done = done.insert(partition_idx);
                acc_on = acc_on.union(on);
                acc_early = acc_early.union(early);
                lemma_pe_step(it.seq(), n, parts0, cur0, v);
                lemma_pe_end(it.seq(), n + 1, parts0, partitions.view());
            }
//@ before "let on_time_count"
        proof {
            lemma_psum_count_ge(partitions.view(), W::CountLive, 0, u64n());
            assert(all_on_time_sectors@ =~= acc_on);
            assert(all_early_sectors@ =~= acc_early);
        }
//@ end

// ======================= Deadline::add_sectors =======================
//@ const actors/miner/src/partition_state.rs PARTITION_EXPIRATION_AMT_BITWIDTH
//@ const actors/miner/src/partition_state.rs PARTITION_EARLY_TERMINATION_ARRAY_AMT_BITWIDTH
//@ fn actors/miner/src/partition_state.rs Partition::new suball1="Array :: < Cid , BS >=>Array :: < Cid , & BS >"
    ensures
        r.is_ok() ==> ({
            let p = r->Ok_0;
            &&& p.sectors@ == Set::<u64>::empty() && p.unproven@ == Set::<u64>::empty() && p.faults@ == Set::<u64>::empty()
            &&& p.recoveries@ == Set::<u64>::empty() && p.terminated@ == Set::<u64>::empty()
            &&& pw_zero(p.live_power) && pw_zero(p.unproven_power) && pw_zero(p.faulty_power) && pw_zero(p.recovering_power)
        }),
//@ end
/// the infos carry pairwise different sector numbers
pub open spec fn soci_distinct(s: Seq<SectorOnChainInfo>) -> bool { forall|i: int, j: int| 0 <= i < j < s.len() ==> soci_number(s[i]) != soci_number(s[j]) }
pub proof fn lemma_soci_sub(s: Seq<SectorOnChainInfo>, a: int, b: int)
    requires soci_distinct(s), 0 <= a <= b <= s.len()
    ensures soci_numbers(s.subrange(a, b)).len() == b - a, soci_numbers(s.subrange(a, b)).subset_of(soci_numbers(s)), soci_distinct(s.subrange(a, b))
{
    let f = |x: SectorOnChainInfo| soci_number(x);
    let t = s.subrange(a, b).map_values(f);
    assert(t.no_duplicates()) by {
        assert forall|i: int, j: int| 0 <= i < t.len() && 0 <= j < t.len() && i != j implies t[i] != t[j] by {
            if i < j { assert(soci_number(s[a + i]) != soci_number(s[a + j])); } else { assert(soci_number(s[a + j]) != soci_number(s[a + i])); }
        }
    }
    t.unique_seq_to_set();
    assert forall|x: u64| soci_numbers(s.subrange(a, b)).contains(x) implies soci_numbers(s).contains(x) by {
        let i = choose|i: int| 0 <= i < t.len() && t[i] == x;
        assert(s.map_values(f)[a + i] == x);
    }
}
/// an old partition only ever gains sectors here
pub open spec fn as_grown(p0: Partition, p1: Partition, all_new: Set<u64>) -> bool {
    &&& p0.sectors@.subset_of(p1.sectors@) && p1.sectors@.difference(p0.sectors@).subset_of(all_new)
    &&& p1.terminated@ == p0.terminated@ && p1.faults@ == p0.faults@ && p1.recoveries@ == p0.recoveries@
    &&& pw_eqv(p1.faulty_power, p0.faulty_power)
}
pub open spec fn as_inv(parts0: Map<u64, Partition>, cur: Map<u64, Partition>, count0: nat, pi: u64, all_new: Set<u64>) -> bool {
    &&& forall|k: u64| cur.dom().contains(k) <==> ((k as nat) < count0 || k < pi)
    &&& cur.dom().len() == (if pi as nat > count0 { pi as nat } else { count0 })
    &&& forall|k: u64| #![trigger cur[k]] (k as nat) + 1 < count0 ==> cur[k] == parts0[k]
    &&& forall|k: u64| #![trigger cur[k]] (k as nat) < count0 ==> as_grown(parts0[k], cur[k], all_new)
    &&& forall|k: u64| #![trigger cur[k]] (k as nat) >= count0 && k < pi ==> cur[k].sectors@.subset_of(all_new)
}
pub open spec fn as_post(m0: Map<u64, Partition>, m1: Map<u64, Partition>, all_new: Set<u64>) -> bool {
    // partitions stay numbered 0..n; all but the last old partition are untouched, that one may gain sectors; new partitions hold only new sectors
    &&& parts_dense(m1) && m0.dom().subset_of(m1.dom())
    &&& forall|k: u64| #![trigger m1[k]] (k as nat) + 1 < m0.dom().len() ==> m1[k] == m0[k]
    &&& forall|k: u64| #![trigger m1[k]] m0.dom().contains(k) ==> as_grown(m0[k], m1[k], all_new)
    &&& forall|k: u64| #![trigger m1[k]] m1.dom().contains(k) && !m0.dom().contains(k) ==> m1[k].sectors@.subset_of(all_new)
}
pub proof fn lemma_as_step(parts0: Map<u64, Partition>, cur0: Map<u64, Partition>, count0: nat, k: u64, v: Partition, all_new: Set<u64>)
    requires
        as_inv(parts0, cur0, count0, k, all_new), parts_dense(parts0), count0 == parts0.dom().len(), (k as nat) + 1 >= count0, k < u64::MAX,
        (k as nat) < count0 ==> as_grown(parts0[k], v, all_new),
        (k as nat) >= count0 ==> v.sectors@.subset_of(all_new),
    ensures as_inv(parts0, cur0.insert(k, v), count0, (k + 1) as u64, all_new),
{
    let cur = cur0.insert(k, v);
    assert forall|k2: u64| cur.dom().contains(k2) <==> ((k2 as nat) < count0 || k2 < k + 1) by {}
    if (k as nat) < count0 { assert(cur0.dom().contains(k)); assert(cur.dom() =~= cur0.dom()); }
    else { assert(!cur0.dom().contains(k)); }
}

//@ fn actors/miner/src/deadline_state.rs Deadline::add_sectors ret=res r20 sub1="for partition_idx in partitions . count () . saturating_sub (1) ..=>let mut __vx_pi : u64 = partitions . count () . saturating_sub (1) ; loop" sub2="partition_deadline_updates . extend (partition_new_sectors . iter () . map (| s | (s . expiration , partition_idx)))=>vx_extend_expiration_updates (& mut partition_deadline_updates , partition_new_sectors , partition_idx)" sub3="partition_deadline_updates . iter () . copied ()=>& partition_deadline_updates"
    requires
        partition_size > 0,
        // representation invariants: partitions are numbered 0..n, every stored partition passed its own validate_state
        parts_dense(dl_parts(*old(self))), forall|k: u64| dl_parts(*old(self)).dom().contains(k) ==> bf_nested(#[trigger] dl_parts(*old(self))[k]),
        // the caller adds each sector once
        soci_distinct(sectors@),
        // no counter overflows
        old(self).live_sectors + sectors@.len() <= u64::MAX, old(self).total_sectors + sectors@.len() <= u64::MAX,
        dl_parts(*old(self)).dom().len() + sectors@.len() < u64::MAX,
    ensures
        res.is_ok() ==> ({
            let m0 = dl_parts(*old(self));
            let m1 = dl_parts(*final(self));
            let (power, fee) = res->Ok_0;
            // C04: ALL memos (faulty power, live power, live and total sector counts) move by exactly the sum of the per-partition changes
            &&& dl_gap_same(*old(self), m0, *final(self), m1)
            &&& dl_consistent(*old(self), m0) ==> dl_consistent(*final(self), m1)
            &&& final(self).live_sectors == old(self).live_sectors + sectors@.len() && final(self).total_sectors == old(self).total_sectors + sectors@.len()
            // the power returned is the live power added ...
            &&& power.raw@ == psum(m1, W::LiveRaw) - psum(m0, W::LiveRaw) && power.qa@ == psum(m1, W::LiveQa) - psum(m0, W::LiveQa)
            // ... C02 "a sector contributes no power before a PoSt has covered it": it becomes ACTIVE power only when the sectors are added as proven
            &&& psum(m1, W::ActRaw) - psum(m0, W::ActRaw) == (if proven { power.raw@ } else { 0 }) && psum(m1, W::ActQa) - psum(m0, W::ActQa) == (if proven { power.qa@ } else { 0 })
            &&& as_post(m0, m1, soci_numbers(sectors@))
            // fees are only charged for sectors new to the deadline
            &&& final(self).daily_fee@ == old(self).daily_fee@ + fee@ && (!new_fees ==> fee@ == 0)
            // the rest of the deadline (but the expiration queue root) is unchanged
            &&& final(self).partitions_posted == old(self).partitions_posted && final(self).early_terminations == old(self).early_terminations
            &&& final(self).optimistic_post_submissions == old(self).optimistic_post_submissions && final(self).sectors_snapshot == old(self).sectors_snapshot
            &&& final(self).partitions_snapshot == old(self).partitions_snapshot && final(self).optimistic_post_submissions_snapshot == old(self).optimistic_post_submissions_snapshot
        }),
//@ entry
        let ghost parts0 = dl_parts(*self);
        let ghost s0 = sectors@;
        let ghost count0 = parts0.dom().len();
        let ghost all_new = soci_numbers(s0);
//@ loop 0
            invariant_except_break
                sectors@.len() > 0,
            invariant
                parts0 == dl_parts(*old(self)), partition_size > 0, parts_dense(parts0), count0 == parts0.dom().len(), soci_distinct(s0), all_new == soci_numbers(s0),
                forall|k: u64| parts0.dom().contains(k) ==> bf_nested(#[trigger] parts0[k]),
                count0 + s0.len() < u64::MAX,
                sectors@.len() <= s0.len(), sectors@ == s0.subrange(s0.len() - sectors@.len(), s0.len() as int),
                (__vx_pi as nat) + 1 >= count0, __vx_pi as nat <= count0 + (s0.len() - sectors@.len()),
                as_inv(parts0, partitions.view(), count0, __vx_pi, all_new),
                *self == (Deadline { live_sectors: (old(self).live_sectors + s0.len()) as u64, total_sectors: (old(self).total_sectors + s0.len()) as u64, ..*old(self) }),
                psum(partitions.view(), W::CountTotal) == psum(parts0, W::CountTotal) + (s0.len() - sectors@.len()),
                psum(partitions.view(), W::CountLive) == psum(parts0, W::CountLive) + (s0.len() - sectors@.len()),
                total_power.raw@ == psum(partitions.view(), W::LiveRaw) - psum(parts0, W::LiveRaw),
                total_power.qa@ == psum(partitions.view(), W::LiveQa) - psum(parts0, W::LiveQa),
                psum(partitions.view(), W::FaultyRaw) == psum(parts0, W::FaultyRaw), psum(partitions.view(), W::FaultyQa) == psum(parts0, W::FaultyQa),
                psum(partitions.view(), W::ActRaw) - psum(parts0, W::ActRaw) == (if proven { total_power.raw@ } else { 0 }),
                psum(partitions.view(), W::ActQa) - psum(parts0, W::ActQa) == (if proven { total_power.qa@ } else { 0 }),
                !new_fees ==> total_daily_fee@ == 0,
            ensures
                sectors@.len() == 0,
            decreases sectors@.len(), u64::MAX - __vx_pi,
//@ loopstart 0
            let partition_idx = __vx_pi;        // `for partition_idx in start..` written out: RangeFrom::next yields the counter and advances it
            __vx_pi = __vx_pi + 1;
            let ghost cur0 = partitions.view();
            let ghost rest0 = sectors@;
            proof {
                if (partition_idx as nat) < count0 { assert(parts0.dom().contains(partition_idx)); assert(cur0.dom().contains(partition_idx)); }
            }
//@ after "partition_deadline_updates . extend"
                proof {
                    let v = partitions.view()[partition_idx];
                    assert(partitions.view() == cur0.insert(partition_idx, v));
                    lemma_psum_set(cur0, partition_idx, v);
                    let a = s0.len() - rest0.len();
                    assert(partition_new_sectors@ =~= s0.subrange(a, a + size));
                    assert(sectors@ =~= s0.subrange(a + size, s0.len() as int));
                    lemma_soci_sub(s0, a, a + size);
                    let snos = soci_numbers(partition_new_sectors@);
                    let pold = if cur0.dom().contains(partition_idx) { cur0[partition_idx] } else { v };
                    if cur0.dom().contains(partition_idx) {
                        let p0 = cur0[partition_idx];
                        assert(as_grown(parts0[partition_idx], p0, all_new));
                        assert(bf_nested(parts0[partition_idx]));
                        assert(p0.terminated@.subset_of(parts0[partition_idx].sectors@));
                        vstd::set_lib::lemma_set_disjoint_lens(p0.sectors@, snos);
                        assert(p0.sectors@ + snos =~= v.sectors@);
                        assert(v.sectors@.difference(v.terminated@) =~= p0.sectors@.difference(p0.terminated@) + snos);
                        vstd::set_lib::lemma_set_disjoint_lens(p0.sectors@.difference(p0.terminated@), snos);
                    } else {
                        assert(v.sectors@ =~= snos);
                        assert(v.sectors@.difference(v.terminated@) =~= snos);
                    }
                    lemma_as_step(parts0, cur0, count0, partition_idx, v, all_new);
                }
//@ loopend 0
            proof {
                if partitions.view() == cur0 {
                    // the partition was full: nothing moved
                    assert(cur0.dom().contains(partition_idx));
                    assert(as_inv(parts0, partitions.view(), count0, __vx_pi, all_new));
                }
            }
//@ before "self . partitions = partitions . flush ()"
        proof {
            let m1 = partitions.view();
            assert(parts_dense(m1));
            assert(as_post(parts0, m1, all_new));
        }
//@ end

// ======================= Deadline::pop_early_terminations =======================
//@ fn actors/miner/src/termination.rs TerminationResult::below_limit ops=keep
    ensures r == (self.partitions_processed < partition_limit && self.sectors_processed < sector_limit),
//@ end
/// the partition is the same up to its early-termination queue root (and the views of the opaque values)
pub open spec fn p_same_but_et(a: Partition, b: Partition) -> bool {
    &&& a.sectors@ == b.sectors@ && a.unproven@ == b.unproven@ && a.faults@ == b.faults@ && a.recoveries@ == b.recoveries@ && a.terminated@ == b.terminated@
    &&& a.expirations_epochs == b.expirations_epochs
    &&& pw_eqv(a.live_power, b.live_power) && pw_eqv(a.unproven_power, b.unproven_power) && pw_eqv(a.faulty_power, b.faulty_power) && pw_eqv(a.recovering_power, b.recovering_power)
}
/// a flag may be cleared only for a partition that does not exist or has nothing pending any more
pub open spec fn pet_cleared_ok(k: u64, m0: Map<u64, Partition>, m1: Map<u64, Partition>) -> bool { !m0.dom().contains(k) || !et_pending(m1[k].early_terminated) }
pub open spec fn pet_inv(keys: Seq<u64>, n: int, parts0: Map<u64, Partition>, cur: Map<u64, Partition>, fin: Seq<u64>) -> bool {
    &&& cur.dom() == parts0.dom()
    &&& forall|k: u64| #![trigger cur[k]] parts0.dom().contains(k) ==> p_same_but_et(parts0[k], cur[k])
    &&& forall|j: int| n <= j < keys.len() ==> #[trigger] cur[keys[j]] == parts0[keys[j]]
    &&& forall|i: int| 0 <= i < fin.len() ==> (exists|j: int| 0 <= j < n && keys[j] == #[trigger] fin[i]) && pet_cleared_ok(fin[i], parts0, cur)
}
pub proof fn lemma_pet_step(keys: Seq<u64>, n: int, parts0: Map<u64, Partition>, cur0: Map<u64, Partition>, cur1: Map<u64, Partition>, fin0: Seq<u64>, fin1: Seq<u64>)
    requires
        0 <= n < keys.len(), keys_ascending(keys), pet_inv(keys, n, parts0, cur0, fin0),
        cur1 == cur0 || (parts0.dom().contains(keys[n]) && cur1 == cur0.insert(keys[n], cur1[keys[n]]) && p_same_but_et(parts0[keys[n]], cur1[keys[n]])),
        fin1 == fin0 || (fin1 == fin0.push(keys[n]) && pet_cleared_ok(keys[n], parts0, cur1)),
    ensures pet_inv(keys, n + 1, parts0, cur1, fin1)
{
    assert(cur1.dom() =~= parts0.dom());
    assert forall|j: int| n + 1 <= j < keys.len() implies #[trigger] cur1[keys[j]] == parts0[keys[j]] by { assert(keys[n] < keys[j]); }
    assert forall|i: int| 0 <= i < fin1.len() implies (exists|j: int| 0 <= j < n + 1 && keys[j] == #[trigger] fin1[i]) && pet_cleared_ok(fin1[i], parts0, cur1) by {
        if i < fin0.len() {
            assert(fin1[i] == fin0[i]);
            let j = choose|j: int| 0 <= j < n && keys[j] == fin0[i];
            assert(keys[j] < keys[n]);
            assert(0 <= j < n + 1 && keys[j] == fin1[i]);
        } else {
            assert(fin1[i] == keys[n]);
        }
    }
}

/// the flagged partitions visited so far are either finished (listed in fin) or exist and still have early terminations pending
pub open spec fn pet_vis(keys: Seq<u64>, n: int, parts0: Map<u64, Partition>, cur: Map<u64, Partition>, fin: Seq<u64>) -> bool {
    forall|j: int| 0 <= j < n ==> fin.contains(#[trigger] keys[j]) || (parts0.dom().contains(keys[j]) && et_pending(cur[keys[j]].early_terminated))
}
/// ... and once ALL flagged partitions were visited
pub open spec fn pet_all(parts0: Map<u64, Partition>, cur: Map<u64, Partition>, fin: Seq<u64>, et0: Set<u64>) -> bool {
    forall|k: u64| #![trigger et0.contains(k)] et0.contains(k) ==> fin.contains(k) || (parts0.dom().contains(k) && et_pending(cur[k].early_terminated))
}
pub proof fn lemma_pet_vis_step(keys: Seq<u64>, n: int, parts0: Map<u64, Partition>, cur0: Map<u64, Partition>, cur1: Map<u64, Partition>, fin0: Seq<u64>, fin1: Seq<u64>, et0: Set<u64>)
    requires
        0 <= n < keys.len(), keys_ascending(keys), pet_vis(keys, n, parts0, cur0, fin0), keys.to_set() == et0,
        cur1 == cur0 || cur1 == cur0.insert(keys[n], cur1[keys[n]]),
        fin1 == fin0 || fin1 == fin0.push(keys[n]),
        fin1 == fin0 ==> parts0.dom().contains(keys[n]) && et_pending(cur1[keys[n]].early_terminated),
    ensures pet_vis(keys, n + 1, parts0, cur1, fin1), n + 1 == keys.len() ==> pet_all(parts0, cur1, fin1, et0)
{
    lemma_push_contains(fin0, fin1, keys[n]);
    assert forall|j: int| 0 <= j < n + 1 implies fin1.contains(#[trigger] keys[j]) || (parts0.dom().contains(keys[j]) && et_pending(cur1[keys[j]].early_terminated)) by {
        if j < n { assert(keys[j] < keys[n]); assert(cur1[keys[j]] == cur0[keys[j]]); }
    }
    if n + 1 == keys.len() {
        assert forall|k: u64| #![trigger et0.contains(k)] et0.contains(k) implies fin1.contains(k) || (parts0.dom().contains(k) && et_pending(cur1[k].early_terminated)) by {
            assert(keys.to_set().contains(k));
            let j = choose|j: int| 0 <= j < keys.len() && keys[j] == k;
            assert(fin1.contains(keys[j]) || (parts0.dom().contains(keys[j]) && et_pending(cur1[keys[j]].early_terminated)));
        }
    }
}
/// what the first loop leaves behind, without naming the iteration sequence
pub open spec fn pet_after(parts0: Map<u64, Partition>, cur: Map<u64, Partition>, fin: Seq<u64>, et0: Set<u64>) -> bool {
    &&& cur.dom() == parts0.dom()
    &&& forall|k: u64| #![trigger cur[k]] parts0.dom().contains(k) ==> p_same_but_et(parts0[k], cur[k])
    &&& forall|i: int| 0 <= i < fin.len() ==> et0.contains(#[trigger] fin[i]) && pet_cleared_ok(fin[i], parts0, cur)
}
pub proof fn lemma_pet_after(keys: Seq<u64>, n: int, parts0: Map<u64, Partition>, cur: Map<u64, Partition>, fin: Seq<u64>, et0: Set<u64>)
    requires 0 <= n <= keys.len(), pet_inv(keys, n, parts0, cur, fin), keys.to_set() == et0
    ensures pet_after(parts0, cur, fin, et0)
{
    assert forall|i: int| 0 <= i < fin.len() implies et0.contains(#[trigger] fin[i]) && pet_cleared_ok(fin[i], parts0, cur) by {
        let j = choose|j: int| 0 <= j < n && keys[j] == fin[i];
        assert(keys.to_set().contains(keys[j]));
    }
}
/// partitions that differ only in their early-termination queue have the same sums
pub proof fn lemma_psum_same_but_et(m0: Map<u64, Partition>, m1: Map<u64, Partition>)
    requires m1.dom() == m0.dom(), forall|k: u64| #![trigger m1[k]] m0.dom().contains(k) ==> p_same_but_et(m0[k], m1[k])
    ensures forall|w: W| #[trigger] psum(m1, w) == psum(m0, w)
{
    assert forall|w: W| #[trigger] psum(m1, w) == psum(m0, w) by {
        assert forall|k: u64| k < u64n() && !Set::<u64>::empty().contains(k) implies (m1.dom().contains(k) == m0.dom().contains(k)) && (m1.dom().contains(k) ==> pval(w, m1[k]) == pval(w, m0[k])) by {
            if m0.dom().contains(k) { assert(p_same_but_et(m0[k], m1[k])); }
        }
        lemma_psum_agree(m1, m0, Set::<u64>::empty(), w, u64n());
    }
}
//@ fn actors/miner/src/deadline_state.rs Deadline::pop_early_terminations ret=res r19=0 sub1="let partition_idx = i ;=>let partition_idx = * i ;"
    ensures
        res.is_ok() ==> ({
            let m0 = dl_parts(*old(self));
            let m1 = dl_parts(*final(self));
            let (result, has_more) = res->Ok_0;
            // C04: no memo of the deadline moves and no partition changes anything but its early-termination queue: every sum is unchanged
            &&& dl_gap_same(*old(self), m0, *final(self), m1)
            &&& dl_consistent(*old(self), m0) ==> dl_consistent(*final(self), m1)
            &&& m1.dom() == m0.dom() && (forall|k: u64| #![trigger m1[k]] m0.dom().contains(k) ==> p_same_but_et(m0[k], m1[k]))
            &&& *final(self) == (Deadline { partitions: final(self).partitions, early_terminations: final(self).early_terminations, ..*old(self) })
            // the flags: none is set; one is cleared only if its partition does not exist or has nothing pending any more; "has more" = some flag is left
            &&& final(self).early_terminations@.subset_of(old(self).early_terminations@)
            &&& forall|k: u64| old(self).early_terminations@.contains(k) && !final(self).early_terminations@.contains(k) ==> #[trigger] pet_cleared_ok(k, m0, m1)
            &&& has_more == !(final(self).early_terminations@ =~= Set::<u64>::empty())
            // when the call did not stop at a limit, every flagged partition was visited: a flag is left only on an existing partition with work pending
            &&& (result.partitions_processed < max_partitions && result.sectors_processed < max_sectors) ==>
                    (forall|k: u64| final(self).early_terminations@.contains(k) ==> m0.dom().contains(k) && #[trigger] et_pending(m1[k].early_terminated))
            // the sector limit is respected
            &&& result.sectors_processed <= max_sectors
        }),
//@ entry
        let ghost parts0 = dl_parts(*self);
//@ loop 0
            invariant
                __vx_i0 <= __vx_v0@.len(), keys_ascending(__vx_v0@), __vx_v0@.to_set() == self.early_terminations@,
                parts0 == dl_parts(*old(self)), *self == *old(self),
                pet_inv(__vx_v0@, __vx_i0 as int, parts0, partitions.view(), partitions_finished@),
                pet_after(parts0, partitions.view(), partitions_finished@, old(self).early_terminations@),
                pet_vis(__vx_v0@, __vx_i0 as int, parts0, partitions.view(), partitions_finished@),
                __vx_v0@.len() == 0 ==> pet_all(parts0, partitions.view(), partitions_finished@, old(self).early_terminations@),
                (__vx_i0 > 0 && __vx_i0 == __vx_v0@.len()) ==> pet_all(parts0, partitions.view(), partitions_finished@, old(self).early_terminations@),
                result.sectors_processed <= max_sectors, result.sectors_processed < max_sectors || result.sectors_processed == 0,
                result.partitions_processed <= __vx_i0,
            decreases __vx_v0@.len() - __vx_i0,
//@ loopstart 0
            let ghost cur0 = partitions.view();
            let ghost fin0 = partitions_finished@;
            let ghost n = __vx_i0 as int;
            proof {
                // the state at the `continue` (partition not found: it is only listed as finished), stated ahead
                if !parts0.dom().contains(__vx_v0@[n]) {
                    let f1 = fin0.push(__vx_v0@[n]);
                    lemma_pet_step(__vx_v0@, n, parts0, cur0, cur0, fin0, f1);
                    lemma_pet_after(__vx_v0@, n + 1, parts0, cur0, f1, old(self).early_terminations@);
                    lemma_pet_vis_step(__vx_v0@, n, parts0, cur0, cur0, fin0, f1, old(self).early_terminations@);
                }
            }
//@ loopend 0
            proof {
                lemma_pet_step(__vx_v0@, n, parts0, cur0, partitions.view(), fin0, partitions_finished@);
                lemma_pet_after(__vx_v0@, n + 1, parts0, partitions.view(), partitions_finished@, old(self).early_terminations@);
                lemma_pet_vis_step(__vx_v0@, n, parts0, cur0, partitions.view(), fin0, partitions_finished@, old(self).early_terminations@);
            }
//@ before "for finished in"
        proof {
            assert(partitions.view().dom() == parts0.dom());
            assert(forall|k: u64| #![trigger partitions.view()[k]] parts0.dom().contains(k) ==> p_same_but_et(parts0[k], partitions.view()[k]));
            assert(pet_after(parts0, partitions.view(), partitions_finished@, old(self).early_terminations@));
        }
        let ghost below = result.partitions_processed < max_partitions && result.sectors_processed < max_sectors;
        proof { assert(below ==> pet_all(parts0, partitions.view(), partitions_finished@, old(self).early_terminations@)); }
//@ loop 1 iter=it2
            invariant
                it2.seq() == partitions_finished@, parts0 == dl_parts(*old(self)),
                pet_after(parts0, partitions.view(), partitions_finished@, old(self).early_terminations@),
                below ==> pet_all(parts0, partitions.view(), partitions_finished@, old(self).early_terminations@),
                forall|i: int| 0 <= i < it2.index@ ==> !self.early_terminations@.contains(#[trigger] it2.seq()[i]),
                *self == (Deadline { early_terminations: self.early_terminations, ..*old(self) }),
                self.early_terminations@.subset_of(old(self).early_terminations@),
                forall|k: u64| old(self).early_terminations@.contains(k) && !self.early_terminations@.contains(k) ==> exists|i: int| 0 <= i < it2.index@ && #[trigger] it2.seq()[i] == k,
//@ before "self . partitions = partitions . flush ()"
        proof {
            lemma_psum_same_but_et(parts0, partitions.view());
            if below {
                assert forall|k: u64| self.early_terminations@.contains(k) implies parts0.dom().contains(k) && #[trigger] et_pending(partitions.view()[k].early_terminated) by {
                    assert(old(self).early_terminations@.contains(k));
                    if partitions_finished@.contains(k) {
                        let i = choose|i: int| 0 <= i < partitions_finished@.len() && partitions_finished@[i] == k;
                        assert(!self.early_terminations@.contains(partitions_finished@[i]));
                    }
                }
            }
        }
//@ end

} // verus!
fn main() {}
