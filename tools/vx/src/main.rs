//! vx — mechanical extractor/weaver.
//!
//! Reads a unit template (`*.vx.rs`), pulls the named items out of /repo's *current working tree*
//! with `syn`, applies the fixed rewrite rules documented in DESIGN.md §2.3, weaves the contract
//! text of the template around the real bodies and writes one Verus file plus a JSON report.
//!
//! usage: vx <template> <repo-root> <verif-root> <out.rs> <out.json> [--vacuity]
//!
//! Exit codes: 0 ok; 2 lost anchor / unsupported construct / malformed template (never an alarm).

use proc_macro2::{Delimiter, Spacing, TokenStream, TokenTree};
use quote::{quote, ToTokens};
use std::collections::BTreeMap;
use std::fmt::Write as _;
use std::str::FromStr;
use syn::visit::Visit;
use syn::visit_mut::VisitMut;

fn die(msg: &str) -> ! {
    eprintln!("vx: UNDECIDED: {}", msg);
    std::process::exit(2)
}

// ------------------------------------------------------------------------------------------
// token pretty printer (whitespace only; token sequence is preserved exactly)
// ------------------------------------------------------------------------------------------
fn pp(ts: TokenStream, out: &mut String, indent: usize) {
    let mut prev_joint = false;
    let mut at_line_start = out.ends_with('\n') || out.is_empty();
    let toks: Vec<TokenTree> = ts.into_iter().collect();
    let n = toks.len();
    let next_kinds: Vec<u8> = toks
        .iter()
        .map(|t| match t {
            TokenTree::Ident(id) if id == "else" => 1u8,
            TokenTree::Punct(_) => 1u8,
            _ => 0u8,
        })
        .collect();
    for (i, t) in toks.into_iter().enumerate() {
        if at_line_start {
            for _ in 0..indent {
                out.push_str("    ");
            }
            at_line_start = false;
        } else if !prev_joint {
            out.push(' ');
        }
        prev_joint = false;
        match t {
            TokenTree::Group(g) => {
                let (o, c) = match g.delimiter() {
                    Delimiter::Parenthesis => ("(", ")"),
                    Delimiter::Brace => ("{", "}"),
                    Delimiter::Bracket => ("[", "]"),
                    Delimiter::None => ("", ""),
                };
                if g.delimiter() == Delimiter::Brace {
                    out.push_str("{\n");
                    pp(g.stream(), out, indent + 1);
                    if !out.ends_with('\n') {
                        out.push('\n');
                    }
                    for _ in 0..indent {
                        out.push_str("    ");
                    }
                    out.push('}');
                    // newline after a closing brace unless followed by punctuation/else
                    if i + 1 < n && next_kinds[i + 1] == 0 {
                        out.push('\n');
                        at_line_start = true;
                    }
                } else {
                    out.push_str(o);
                    let mut inner = String::new();
                    pp(g.stream(), &mut inner, indent + 1);
                    out.push_str(inner.trim_start());
                    out.push_str(c);
                }
            }
            TokenTree::Punct(p) => {
                out.push(p.as_char());
                if p.spacing() == Spacing::Joint {
                    prev_joint = true;
                } else if p.as_char() == ';' {
                    out.push('\n');
                    at_line_start = true;
                }
            }
            TokenTree::Ident(id) => {
                let _ = write!(out, "{}", id);
            }
            TokenTree::Literal(l) => {
                let _ = write!(out, "{}", l);
            }
        }
    }
}

fn pretty(ts: TokenStream, indent: usize) -> String {
    let mut s = String::new();
    pp(ts, &mut s, indent);
    s
}

// ------------------------------------------------------------------------------------------
// directive parsing
// ------------------------------------------------------------------------------------------
#[derive(Default, Debug, Clone)]
struct FnDir {
    file: String,
    path: String,
    opts: BTreeMap<String, String>,
    spec: String,
    entry: String,
    exit_: String,
    loops: BTreeMap<usize, String>,
    loop_iters: BTreeMap<usize, String>,
    loop_ends: BTreeMap<usize, String>, // text appended at the end of loop k's body
    loop_afters: BTreeMap<usize, String>, // text put right AFTER loop statement k (the loop must be in statement position)
    loop_starts: BTreeMap<usize, String>, // text inserted at the start of loop k's body
    anchors: Vec<(String, String)>, // (substring of a printed statement line, text inserted after that line)
    line: usize,
}

fn split_opts(s: &str) -> Vec<String> {
    // whitespace separated words; key="quoted value" keeps spaces
    let mut out = vec![];
    let mut cur = String::new();
    let mut inq = false;
    for ch in s.chars() {
        match ch {
            '"' => inq = !inq,
            c if c.is_whitespace() && !inq => {
                if !cur.is_empty() {
                    out.push(std::mem::take(&mut cur));
                }
            }
            c => cur.push(c),
        }
    }
    if !cur.is_empty() {
        out.push(cur);
    }
    out
}

// ------------------------------------------------------------------------------------------
// item lookup
// ------------------------------------------------------------------------------------------
struct Found {
    attrs_dropped: usize,
    vis: syn::Visibility,
    sig: syn::Signature,
    block: syn::Block,
    impl_generics: Option<syn::Generics>,
    self_ty: Option<syn::Type>,
    trait_: Option<syn::Path>,
    span_lines: (usize, usize),
    assoc: Vec<syn::ImplItem>,
}

fn type_last_ident(t: &syn::Type) -> Option<String> {
    match t {
        syn::Type::Path(p) => p.path.segments.last().map(|s| s.ident.to_string()),
        syn::Type::Reference(r) => type_last_ident(&r.elem),
        _ => None,
    }
}
/// `Type` matches by last identifier (references stripped); `&Type` matches only a reference self type
fn self_ty_matches(t: &syn::Type, want: &str) -> bool {
    let want = want.trim();
    if let Some(rest) = want.strip_prefix('&') {
        matches!(t, syn::Type::Reference(_)) && type_last_ident(t).as_deref() == Some(rest.trim())
    } else if want.starts_with('=') {
        !matches!(t, syn::Type::Reference(_)) && type_last_ident(t).as_deref() == Some(want[1..].trim())
    } else {
        type_last_ident(t).as_deref() == Some(want)
    }
}

fn find_fn_in_items(items: &[syn::Item], ty: Option<&str>, name: &str, tr: Option<&str>, out: &mut Vec<Found>) {
    for it in items {
        match it {
            syn::Item::Fn(f) if ty.is_none() && f.sig.ident == name => {
                let sp = f.block.brace_token.span;
                out.push(Found {
                    attrs_dropped: f.attrs.len(),
                    vis: f.vis.clone(),
                    sig: f.sig.clone(),
                    block: (*f.block).clone(),
                    impl_generics: None,
                    self_ty: None,
                    trait_: None,
                    span_lines: (f.sig.fn_token.span.start().line, sp.close().end().line),
                    assoc: vec![],
                });
            }
            syn::Item::Impl(im) => {
                if let Some(tyname) = ty {
                    if !self_ty_matches(&im.self_ty, tyname) {
                        continue;
                    }
                    let this_tr = im.trait_.as_ref().map(|(_, p, _)| p.segments.last().unwrap().ident.to_string());
                    match (tr, &this_tr) {
                        (Some(want), Some(have)) if want == have => {}
                        (None, _) => {}
                        _ => continue,
                    }
                    for ii in &im.items {
                        if let syn::ImplItem::Fn(m) = ii {
                            if m.sig.ident == name {
                                out.push(Found {
                                    attrs_dropped: m.attrs.len(),
                                    vis: m.vis.clone(),
                                    sig: m.sig.clone(),
                                    block: m.block.clone(),
                                    impl_generics: Some(im.generics.clone()),
                                    self_ty: Some((*im.self_ty).clone()),
                                    trait_: im.trait_.as_ref().map(|(_, p, _)| p.clone()),
                                    span_lines: (m.sig.fn_token.span.start().line, m.block.brace_token.span.close().end().line),
                                    assoc: im.items.iter().filter(|x| matches!(x, syn::ImplItem::Type(_) | syn::ImplItem::Const(_))).cloned().collect(),
                                });
                            }
                        }
                    }
                }
            }
            syn::Item::Mod(m) => {
                if let Some((_, items)) = &m.content {
                    // skip test modules
                    if m.ident == "tests" || m.ident == "test" {
                        continue;
                    }
                    find_fn_in_items(items, ty, name, tr, out);
                }
            }
            _ => {}
        }
    }
}

fn find_named_item<'a>(items: &'a [syn::Item], name: &str) -> Option<&'a syn::Item> {
    for it in items {
        let hit = match it {
            syn::Item::Const(c) => c.ident == name,
            syn::Item::Struct(s) => s.ident == name,
            syn::Item::Enum(e) => e.ident == name,
            syn::Item::Type(t) => t.ident == name,
            syn::Item::Static(s) => s.ident == name,
            _ => false,
        };
        if hit {
            return Some(it);
        }
        if let syn::Item::Mod(m) = it {
            if let Some((_, items)) = &m.content {
                if let Some(x) = find_named_item(items, name) {
                    return Some(x);
                }
            }
        }
    }
    None
}

// ------------------------------------------------------------------------------------------
// rewrites
// ------------------------------------------------------------------------------------------
#[derive(Default)]
struct Stats {
    r1_ops: usize,
    r1_neg: usize,
    loops: usize,
    tx_lifted: usize,
    rt_params: usize,
    for_desugared: usize,
    letchain_unfolded: usize,
    optmap_inlined: usize,
    guard_match: usize,
    nested_lifted: usize,
    for_each_loops: usize,
    zip_loops: usize,
    refpat_for: usize,
    for_indexed: usize,
    continue_elim: usize,
}

struct OpRewriter<'a> {
    stats: &'a mut Stats,
    enabled: bool,
}
impl<'a> VisitMut for OpRewriter<'a> {
    fn visit_expr_mut(&mut self, e: &mut syn::Expr) {
        syn::visit_mut::visit_expr_mut(self, e);
        if !self.enabled {
            return;
        }
        match e {
            syn::Expr::Binary(b) => {
                let (l, r) = (&b.left, &b.right);
                let path = match b.op {
                    syn::BinOp::Add(_) => Some(quote!(::core::ops::Add::add)),
                    syn::BinOp::Sub(_) => Some(quote!(::core::ops::Sub::sub)),
                    syn::BinOp::Mul(_) => Some(quote!(::core::ops::Mul::mul)),
                    syn::BinOp::Div(_) => Some(quote!(::core::ops::Div::div)),
                    syn::BinOp::Rem(_) => Some(quote!(::core::ops::Rem::rem)),
                    _ => None,
                };
                if let Some(p) = path {
                    self.stats.r1_ops += 1;
                    *e = syn::parse_quote!(#p(#l, #r));
                }
            }
            syn::Expr::Unary(u) => {
                if let syn::UnOp::Neg(_) = u.op {
                    if !matches!(&*u.expr, syn::Expr::Lit(_)) {
                        let x = &u.expr;
                        self.stats.r1_neg += 1;
                        *e = syn::parse_quote!(::core::ops::Neg::neg(#x));
                    }
                }
            }
            _ => {}
        }
    }
}

/// Loop placeholders: `while c {..}` -> `while c __VX_LOOP_k__ {..}` (numbered in source order).
struct LoopMarker<'a> {
    next: usize,
    stats: &'a mut Stats,
}
impl<'a> VisitMut for LoopMarker<'a> {
    fn visit_expr_mut(&mut self, e: &mut syn::Expr) {
        let k;
        match e {
            syn::Expr::While(_) | syn::Expr::ForLoop(_) | syn::Expr::Loop(_) => {
                k = self.next;
                self.next += 1;
                self.stats.loops += 1;
            }
            _ => {
                syn::visit_mut::visit_expr_mut(self, e);
                return;
            }
        }
        // visit children first (inner loops get larger ordinals: pre-order numbering)
        syn::visit_mut::visit_expr_mut(self, e);
        let ph = quote::format_ident!("__VX_LOOP_{}__", k);
        let pe = quote::format_ident!("__VX_LOOPEND_{}__", k);
        let ps = quote::format_ident!("__VX_LOOPSTART_{}__", k);
        let new: TokenStream = match e {
            syn::Expr::While(w) => {
                let (attrs, label, cond) = (&w.attrs, &w.label, &w.cond);
                let stmts = &w.body.stmts;
                quote!(#(#attrs)* #label while #cond #ph { #ps #(#stmts)* #pe })
            }
            syn::Expr::ForLoop(f) => {
                let (label, pat, expr) = (&f.label, &f.pat, &f.expr);
                let stmts = &f.body.stmts;
                let ih = quote::format_ident!("__VX_ITER_{}__", k);
                quote!(#label for #pat in #ih #expr #ph { #ps #(#stmts)* #pe })
            }
            syn::Expr::Loop(l) => {
                let label = &l.label;
                let stmts = &l.body.stmts;
                quote!(#label loop #ph { #ps #(#stmts)* #pe })
            }
            _ => unreachable!(),
        };
        *e = syn::Expr::Verbatim(new);
    }
}

/// R6: `for p in e { body-with-continue }` → `let mut it = IntoIterator::into_iter(e); loop { match it.next() { Some(p) => body, None => break } }`
struct ForDesugar<'a> {
    stats: &'a mut Stats,
    which: Vec<usize>, // ordinals (among `for` loops, source order) to desugar; empty = none
    next: usize,
}
impl<'a> VisitMut for ForDesugar<'a> {
    fn visit_expr_mut(&mut self, e: &mut syn::Expr) {
        if let syn::Expr::ForLoop(_) = e {
            let k = self.next;
            self.next += 1;
            syn::visit_mut::visit_expr_mut(self, e);
            if self.which.contains(&k) {
                if let syn::Expr::ForLoop(f) = e {
                    let (label, pat, expr, body) = (&f.label, &f.pat, &f.expr, &f.body);
                    let it = quote::format_ident!("__vx_it{}", k);
                    self.stats.for_desugared += 1;
                    *e = syn::parse_quote!({
                        let mut #it = ::core::iter::IntoIterator::into_iter(#expr);
                        #label loop {
                            match #it.next() {
                                Some(#pat) => #body,
                                None => break,
                            }
                        }
                    });
                }
            }
            return;
        }
        syn::visit_mut::visit_expr_mut(self, e);
    }
}

/// R19: `for P in E BODY` → `{ let __vx_vK = &(E); let mut __vx_iK: usize = 0; #[verifier::loop_isolation(false)] 'l: while __vx_iK < __vx_vK.len()
/// { let P = &__vx_vK[__vx_iK]; __vx_iK = __vx_iK + 1; BODY } }` for the listed ordinals (opt-in `r19=0,1`): Verus' `for` has no `continue`.
/// P now binds a reference also when E was a Vec iterated by value (a body that moves out of P stops compiling → exit 2).
struct ForIndex<'a> {
    stats: &'a mut Stats,
    which: Vec<usize>,
    next: usize,
}
impl<'a> VisitMut for ForIndex<'a> {
    fn visit_expr_mut(&mut self, e: &mut syn::Expr) {
        if let syn::Expr::ForLoop(_) = e {
            let k = self.next;
            self.next += 1;
            syn::visit_mut::visit_expr_mut(self, e);
            if self.which.contains(&k) {
                if let syn::Expr::ForLoop(f) = e {
                    let (label, pat, expr) = (&f.label, &f.pat, &f.expr);
                    let stmts = &f.body.stmts;
                    let v = quote::format_ident!("__vx_v{}", k);
                    let i = quote::format_ident!("__vx_i{}", k);
                    self.stats.for_indexed += 1;
                    *e = syn::parse_quote!({
                        let #v = &(#expr);
                        let mut #i: usize = 0;
                        #[verifier::loop_isolation(false)]
                        #label while #i < #v.len() {
                            let #pat = &#v[#i];
                            #i = #i + 1;
                            #(#stmts)*
                        }
                    });
                }
            }
            return;
        }
        syn::visit_mut::visit_expr_mut(self, e);
    }
}

/// R20: continue elimination at the top level of a loop body: `if C { S; continue; } REST` → `if C { S } else { REST }`
/// (opt-in; unlabeled `continue` only, `if` without `else`). Verus' `for` loops have no `continue`.
struct ContinueElim<'a> {
    stats: &'a mut Stats,
}
fn elim_continue(stmts: Vec<syn::Stmt>, count: &mut usize) -> Vec<syn::Stmt> {
    let mut out = vec![];
    let mut it = stmts.into_iter();
    while let Some(st) = it.next() {
        let mut handled = false;
        if let syn::Stmt::Expr(syn::Expr::If(ifx), _) = &st {
            if ifx.else_branch.is_none() {
                if let Some(syn::Stmt::Expr(syn::Expr::Continue(c), _)) = ifx.then_branch.stmts.last() {
                    if c.label.is_none() {
                        let mut then = ifx.then_branch.stmts.clone();
                        then.pop();
                        let cond = &ifx.cond;
                        let rest: Vec<syn::Stmt> = elim_continue(it.by_ref().collect(), count);
                        *count += 1;
                        let e: syn::Expr = if rest.is_empty() {
                            syn::parse_quote!(if #cond { #(#then)* })
                        } else {
                            syn::parse_quote!(if #cond { #(#then)* } else { #(#rest)* })
                        };
                        out.push(syn::Stmt::Expr(e, None));
                        handled = true;
                    }
                }
            }
        }
        if !handled {
            out.push(st);
        }
    }
    out
}
impl<'a> VisitMut for ContinueElim<'a> {
    fn visit_expr_mut(&mut self, e: &mut syn::Expr) {
        syn::visit_mut::visit_expr_mut(self, e);
        let body: Option<&mut syn::Block> = match e {
            syn::Expr::ForLoop(f) => Some(&mut f.body),
            syn::Expr::While(w) => Some(&mut w.body),
            syn::Expr::Loop(l) => Some(&mut l.body),
            _ => None,
        };
        if let Some(b) = body {
            let stmts = std::mem::take(&mut b.stmts);
            b.stmts = elim_continue(stmts, &mut self.stats.continue_elim);
        }
    }
}

/// R5: `if A && let P = E && B { T }` (no else) → nested ifs.
struct LetChain<'a> {
    stats: &'a mut Stats,
}
fn flatten_and(e: &syn::Expr, out: &mut Vec<syn::Expr>) {
    if let syn::Expr::Binary(b) = e {
        if let syn::BinOp::And(_) = b.op {
            flatten_and(&b.left, out);
            flatten_and(&b.right, out);
            return;
        }
    }
    out.push(e.clone());
}
impl<'a> VisitMut for LetChain<'a> {
    fn visit_expr_mut(&mut self, e: &mut syn::Expr) {
        syn::visit_mut::visit_expr_mut(self, e);
        if let syn::Expr::If(i) = e {
            let mut parts = vec![];
            flatten_and(&i.cond, &mut parts);
            let has_let = parts.iter().any(|p| matches!(p, syn::Expr::Let(_)));
            if parts.len() > 1 && has_let {
                if i.else_branch.is_some() {
                    die("let-chain with else branch is outside the extractor's subset (R5)");
                }
                let then = &i.then_branch;
                let mut acc: syn::Expr = syn::parse_quote!(#then);
                for p in parts.iter().rev() {
                    acc = syn::parse_quote!({ if #p #acc });
                    // `if cond {block}` needs a block: acc is a block expr already
                }
                self.stats.letchain_unfolded += 1;
                *e = acc;
            }
        }
    }
}

/// R10: `X.map(|p| B).unwrap_or(D)` → `match X { Some(p) => B, None => D }` (opt-in; a non-Option receiver makes the
/// generated file fail to compile → UNDECIDED). B must not contain `return` or `?` (their meaning would change).
struct OptMapInline<'a> {
    stats: &'a mut Stats,
    plain_map: bool,
    result_map: bool,
}
struct HasEscape(bool);
impl<'ast> Visit<'ast> for HasEscape {
    fn visit_expr_return(&mut self, _: &'ast syn::ExprReturn) {
        self.0 = true;
    }
    fn visit_expr_try(&mut self, _: &'ast syn::ExprTry) {
        self.0 = true;
    }
}
impl<'a> VisitMut for OptMapInline<'a> {
    fn visit_expr_mut(&mut self, e: &mut syn::Expr) {
        syn::visit_mut::visit_expr_mut(self, e);
        if self.plain_map {
            if let syn::Expr::MethodCall(inner) = e {
                if inner.method == "map" && inner.args.len() == 1 {
                    if let syn::Expr::Closure(c) = &inner.args[0] {
                        if c.inputs.len() == 1 {
                            let mut he = HasEscape(false);
                            he.visit_expr(&c.body);
                            if he.0 {
                                die("R10: closure body contains return/? — cannot inline");
                            }
                            let x = &inner.receiver;
                            let p = match &c.inputs[0] {
                                syn::Pat::Type(pt) => (*pt.pat).clone(),
                                other => other.clone(),
                            };
                            let b = &c.body;
                            self.stats.optmap_inlined += 1;
                            if self.result_map {
                                *e = syn::parse_quote!(match #x { Ok(#p) => Ok(#b), Err(__vx_e) => Err(__vx_e) });
                            } else {
                                *e = syn::parse_quote!(match #x { Some(#p) => Some(#b), None => None });
                            }
                            return;
                        }
                    }
                }
            }
        }
        if let syn::Expr::MethodCall(outer) = e {
            if outer.method == "unwrap_or" && outer.args.len() == 1 {
                if let syn::Expr::MethodCall(inner) = &*outer.receiver {
                    if inner.method == "map" && inner.args.len() == 1 {
                        if let syn::Expr::Closure(c) = &inner.args[0] {
                            if c.inputs.len() == 1 {
                                let mut he = HasEscape(false);
                                he.visit_expr(&c.body);
                                if he.0 {
                                    die("R10: closure body contains return/? — cannot inline");
                                }
                                let x = &inner.receiver;
                                let p = match &c.inputs[0] {
                                    syn::Pat::Type(pt) => (*pt.pat).clone(),
                                    other => other.clone(),
                                };
                                let b = &c.body;
                                let d = &outer.args[0];
                                self.stats.optmap_inlined += 1;
                                *e = syn::parse_quote!(match #x { Some(#p) => #b, None => #d });
                            }
                        }
                    }
                }
            }
        }
    }
}

/// R13: `match E { P if G => A, _ => B }` (exactly these two arms) → `if let P = E { if G { A } else { B } } else { B }`.
/// Same evaluation order and bindings; B is duplicated syntactically but exactly one copy runs. Needed because the
/// installed Verus loses the frame of `&mut self` across a guarded match arm that contains `?`. Opt-in (`r13`).
struct GuardMatch<'a> {
    stats: &'a mut Stats,
}
impl<'a> VisitMut for GuardMatch<'a> {
    fn visit_expr_mut(&mut self, e: &mut syn::Expr) {
        syn::visit_mut::visit_expr_mut(self, e);
        if let syn::Expr::Match(m) = e {
            if m.arms.len() == 2 && m.arms[0].guard.is_some() && m.arms[1].guard.is_none() && matches!(m.arms[1].pat, syn::Pat::Wild(_)) {
                let scrut = &m.expr;
                let p = &m.arms[0].pat;
                let g = &m.arms[0].guard.as_ref().unwrap().1;
                let a = &m.arms[0].body;
                let b = &m.arms[1].body;
                self.stats.guard_match += 1;
                *e = syn::parse_quote!(if let #p = #scrut { if #g { #a } else { #b } } else { #b });
            }
        }
    }
}

/// R12: closure parameter `_` → `_vx_unused` (Verus rejects wildcard closure parameters; pure renaming)
struct WildClosure;
impl VisitMut for WildClosure {
    fn visit_expr_closure_mut(&mut self, c: &mut syn::ExprClosure) {
        for inp in c.inputs.iter_mut() {
            if let syn::Pat::Wild(_) = inp {
                *inp = syn::parse_quote!(_vx_unused);
            }
        }
        syn::visit_mut::visit_expr_closure_mut(self, c);
    }
}

/// R3 (captured-by-mutable-reference variables of a lifted closure): `x` → `(*x)`
struct DerefVars {
    names: Vec<String>,
    count: usize,
}
impl VisitMut for DerefVars {
    fn visit_expr_mut(&mut self, e: &mut syn::Expr) {
        syn::visit_mut::visit_expr_mut(self, e);
        if let syn::Expr::Path(p) = e {
            if p.qself.is_none() && p.path.segments.len() == 1 && p.path.leading_colon.is_none() {
                let id = p.path.segments[0].ident.to_string();
                if self.names.contains(&id) {
                    let idt = &p.path.segments[0].ident;
                    self.count += 1;
                    *e = syn::parse_quote!((*#idt));
                }
            }
        }
    }
}

/// R3: finds `rt.transaction(|..| body)` calls in source order.

// ===================== R21: region + forward slice (opt-in) =====================
// `region="<from>=><to>"` selects, in the innermost block of the function that has a statement whose text starts with <from>, the statements
// from that one up to and including the first later statement starting with <to>, and lifts them into a function (`as=`, `params=`, `retty=`,
// optional `tail=`). `slice="a,b"` then keeps only the statements that mention a slice identifier (closed forward over `let` and `for`
// bindings initialised from one) and the headers of the loops / ifs / blocks around them; everything else in the region is DROPPED.
// What makes dropping sound for a postcondition that speaks only about the slice variables (and holds only on normal completion):
//   * a dropped statement mentions no slice identifier (by construction), contains no `break` / `continue`, and binds no name a kept statement uses;
//   * every other parameter / loop variable the kept code reads is checked to be read-only in dropped statements (no assignment, no `&mut`,
//     no method call on it unless it is listed in `shared=` as a shared reference);
//   * parameters listed in `havoc=` may be changed arbitrarily by dropped code: each run of dropped statements is replaced by a call to an
//     auto-declared unconstrained `<as>__havoc(..)` over them.
// Early exits (`?`, `return`) in dropped statements are lost: the contract of a region is about runs that reach its end.
fn norm_text(ts: TokenStream) -> String {
    pretty(ts, 0).split_whitespace().collect::<Vec<_>>().join(" ")
}
struct RegionFinder {
    from: String,
    to: String,
    got: Option<Vec<syn::Stmt>>,
    hits: usize,
}
impl<'ast> Visit<'ast> for RegionFinder {
    fn visit_block(&mut self, b: &'ast syn::Block) {
        syn::visit::visit_block(self, b);
        let mut start = None;
        for (i, st) in b.stmts.iter().enumerate() {
            if norm_text(st.to_token_stream()).starts_with(&self.from) {
                start = Some(i);
                break;
            }
        }
        if let Some(i) = start {
            self.hits += 1;
            if self.got.is_some() {
                return;
            }
            for j in i..b.stmts.len() {
                if norm_text(b.stmts[j].to_token_stream()).starts_with(&self.to) {
                    self.got = Some(b.stmts[i..=j].to_vec());
                    return;
                }
            }
        }
    }
}
fn ts_idents(ts: TokenStream, out: &mut std::collections::BTreeSet<String>) {
    for t in ts {
        match t {
            TokenTree::Ident(i) => {
                out.insert(i.to_string());
            }
            TokenTree::Group(g) => ts_idents(g.stream(), out),
            _ => {}
        }
    }
}
/// identifiers in variable position: an identifier right after a `.` is a field or method name and is skipped
fn ts_var_idents(ts: TokenStream, out: &mut std::collections::BTreeSet<String>) {
    let mut after_dot = false;
    for t in ts {
        match t {
            TokenTree::Ident(i) => {
                if !after_dot {
                    out.insert(i.to_string());
                }
                after_dot = false;
            }
            TokenTree::Group(g) => {
                ts_var_idents(g.stream(), out);
                after_dot = false;
            }
            TokenTree::Punct(p) => {
                after_dot = p.as_char() == '.' && p.spacing() == Spacing::Alone;
            }
            _ => after_dot = false,
        }
    }
}
fn ts_mentions(ts: TokenStream, set: &std::collections::BTreeSet<String>) -> bool {
    let mut ids = std::collections::BTreeSet::new();
    ts_var_idents(ts, &mut ids);
    ids.iter().any(|i| set.contains(i))
}
fn pat_idents(p: &syn::Pat, out: &mut std::collections::BTreeSet<String>) {
    struct V<'a>(&'a mut std::collections::BTreeSet<String>);
    impl<'ast, 'a> Visit<'ast> for V<'a> {
        fn visit_pat_ident(&mut self, p: &'ast syn::PatIdent) {
            self.0.insert(p.ident.to_string());
            syn::visit::visit_pat_ident(self, p);
        }
    }
    V(out).visit_pat(p);
}
/// forward closure of the slice set over `let P = E` and `for P in E` whose E mentions it
struct SliceClosure<'a> {
    keep: &'a mut std::collections::BTreeSet<String>,
    changed: bool,
}
impl<'ast, 'a> Visit<'ast> for SliceClosure<'a> {
    fn visit_local(&mut self, l: &'ast syn::Local) {
        if let Some(init) = &l.init {
            if ts_mentions(init.expr.to_token_stream(), self.keep) {
                let mut ids = std::collections::BTreeSet::new();
                pat_idents(&l.pat, &mut ids);
                for i in ids {
                    if self.keep.insert(i) {
                        self.changed = true;
                    }
                }
            }
        }
        syn::visit::visit_local(self, l);
    }
    fn visit_expr_for_loop(&mut self, f: &'ast syn::ExprForLoop) {
        if ts_mentions(f.expr.to_token_stream(), self.keep) {
            let mut ids = std::collections::BTreeSet::new();
            pat_idents(&f.pat, &mut ids);
            for i in ids {
                if self.keep.insert(i) {
                    self.changed = true;
                }
            }
        }
        syn::visit::visit_expr_for_loop(self, f);
    }
}
struct Slicer {
    keep: std::collections::BTreeSet<String>,
    havoc_call: Option<syn::Stmt>,
    dropped: Vec<syn::Stmt>,
    kept_simple: usize,
    havocs: usize,
    loop_vars: std::collections::BTreeSet<String>,
}
impl Slicer {
    fn slice_block(&mut self, b: &mut syn::Block) -> bool {
        let stmts = std::mem::take(&mut b.stmts);
        let (out, any) = self.slice_stmts(stmts);
        b.stmts = out;
        any
    }
    /// slices a compound expression in place; returns whether anything inside (or its header) is kept
    fn slice_compound(&mut self, e: &mut syn::Expr) -> Option<bool> {
        match e {
            syn::Expr::ForLoop(f) => {
                let hdr = ts_mentions(f.expr.to_token_stream(), &self.keep);
                let inner = self.slice_block(&mut f.body);
                if hdr || inner {
                    pat_idents(&f.pat, &mut self.loop_vars);
                }
                Some(hdr || inner)
            }
            syn::Expr::While(w) => {
                let hdr = ts_mentions(w.cond.to_token_stream(), &self.keep);
                let inner = self.slice_block(&mut w.body);
                Some(hdr || inner)
            }
            syn::Expr::Loop(l) => Some(self.slice_block(&mut l.body)),
            syn::Expr::Block(b) if b.label.is_none() => Some(self.slice_block(&mut b.block)),
            syn::Expr::If(i) => {
                let hdr = ts_mentions(i.cond.to_token_stream(), &self.keep);
                let mut inner = self.slice_block(&mut i.then_branch);
                if let Some((_, els)) = &mut i.else_branch {
                    match self.slice_compound(els) {
                        Some(k) => inner = inner || k,
                        None => die("internal: else branch is not a block"),
                    }
                }
                Some(hdr || inner)
            }
            _ => None,
        }
    }
    fn slice_stmts(&mut self, stmts: Vec<syn::Stmt>) -> (Vec<syn::Stmt>, bool) {
        let mut out = vec![];
        let mut any = false;
        let mut run = false;
        for mut st in stmts {
            let kept = match &mut st {
                syn::Stmt::Expr(e, _) => match self.slice_compound(e) {
                    Some(k) => k,
                    None => {
                        let k = ts_mentions(st.to_token_stream(), &self.keep);
                        if k {
                            self.kept_simple += 1;
                        }
                        k
                    }
                },
                other => {
                    let k = ts_mentions(other.to_token_stream(), &self.keep);
                    if k {
                        self.kept_simple += 1;
                    }
                    k
                }
            };
            if kept {
                if run {
                    if let Some(h) = &self.havoc_call {
                        out.push(h.clone());
                        self.havocs += 1;
                    }
                }
                run = false;
                any = true;
                out.push(st);
            } else {
                self.dropped.push(st);
                run = true;
            }
        }
        if run {
            if let Some(h) = &self.havoc_call {
                out.push(h.clone());
                self.havocs += 1;
            }
        }
        (out, any)
    }
}
fn expr_root(e: &syn::Expr) -> Option<String> {
    match e {
        syn::Expr::Path(p) if p.path.segments.len() == 1 && p.qself.is_none() => Some(p.path.segments[0].ident.to_string()),
        syn::Expr::Field(f) => expr_root(&f.base),
        syn::Expr::Index(i) => expr_root(&i.expr),
        syn::Expr::Paren(p) => expr_root(&p.expr),
        syn::Expr::Unary(u) if matches!(u.op, syn::UnOp::Deref(_)) => expr_root(&u.expr),
        syn::Expr::Reference(r) => expr_root(&r.expr),
        _ => None,
    }
}
/// read-only check of `ro` identifiers inside a dropped statement
struct RoCheck<'a> {
    ro: &'a std::collections::BTreeSet<String>,
    shared: &'a std::collections::BTreeSet<String>,
    bad: Vec<String>,
}
impl<'ast, 'a> Visit<'ast> for RoCheck<'a> {
    fn visit_expr(&mut self, e: &'ast syn::Expr) {
        match e {
            syn::Expr::Assign(a) => {
                if let Some(r) = expr_root(&a.left) {
                    if self.ro.contains(&r) {
                        self.bad.push(format!("assignment to `{}`", r));
                    }
                }
            }
            syn::Expr::Binary(b) => {
                let is_assign = matches!(
                    b.op,
                    syn::BinOp::AddAssign(_) | syn::BinOp::SubAssign(_) | syn::BinOp::MulAssign(_) | syn::BinOp::DivAssign(_) | syn::BinOp::RemAssign(_)
                        | syn::BinOp::BitXorAssign(_) | syn::BinOp::BitAndAssign(_) | syn::BinOp::BitOrAssign(_) | syn::BinOp::ShlAssign(_) | syn::BinOp::ShrAssign(_)
                );
                if is_assign {
                    if let Some(r) = expr_root(&b.left) {
                        if self.ro.contains(&r) {
                            self.bad.push(format!("compound assignment to `{}`", r));
                        }
                    }
                }
            }
            syn::Expr::Reference(r) if r.mutability.is_some() => {
                if let Some(x) = expr_root(&r.expr) {
                    if self.ro.contains(&x) {
                        self.bad.push(format!("`&mut {}`", x));
                    }
                }
            }
            syn::Expr::MethodCall(m) => {
                if let Some(x) = expr_root(&m.receiver) {
                    if self.ro.contains(&x) && !self.shared.contains(&x) {
                        self.bad.push(format!("method call `{}.{}(..)` (not declared shared=)", x, m.method));
                    }
                }
            }
            syn::Expr::Macro(m) => {
                let t = m.mac.tokens.to_string();
                let mut ids = std::collections::BTreeSet::new();
                ts_idents(m.mac.tokens.clone(), &mut ids);
                if ids.iter().any(|i| self.ro.contains(i)) {
                    for op in [" = ", "+=", "-=", "*=", "/=", "|=", "&=", "^=", "%=", "<<=", ">>=", "& mut", "&mut"] {
                        if t.contains(op) {
                            self.bad.push(format!("macro arguments contain `{}`", op.trim()));
                        }
                    }
                }
            }
            _ => {}
        }
        syn::visit::visit_expr(self, e);
    }
}

// ===================== R23 (opt-in): `E.into_iter().any(|a| *a == X)` / `.all(..)` -> `vx_any_eq(E, X)` / `vx_all_eq(E, X)` =====================
// membership / universality tests written with closure-taking iterator adapters (outside this Verus) become calls of two generic prelude
// functions whose contract is their meaning (prelude/iter_any.rs). Only the exact shape is rewritten: receiver `.into_iter()` or `.iter()`,
// one closure parameter, body `*p == X`, `p == X`, `X == *p` or `X == p`.
struct AnyAllEq<'a> {
    count: &'a mut usize,
}
impl<'a> VisitMut for AnyAllEq<'a> {
    fn visit_expr_mut(&mut self, e: &mut syn::Expr) {
        syn::visit_mut::visit_expr_mut(self, e);
        let mut repl: Option<syn::Expr> = None;
        if let syn::Expr::MethodCall(m) = e {
            let which = m.method.to_string();
            if (which == "any" || which == "all") && m.args.len() == 1 {
                if let (syn::Expr::MethodCall(inner), syn::Expr::Closure(c)) = (&*m.receiver, &m.args[0]) {
                    let im = inner.method.to_string();
                    if (im == "into_iter" || im == "iter") && inner.args.is_empty() && c.inputs.len() == 1 {
                        let pname = match &c.inputs[0] {
                            syn::Pat::Ident(pi) => Some(pi.ident.to_string()),
                            syn::Pat::Type(pt) => match &*pt.pat { syn::Pat::Ident(pi) => Some(pi.ident.to_string()), _ => None },
                            _ => None,
                        };
                        if let (Some(pn), syn::Expr::Binary(b)) = (pname, &*c.body) {
                            if matches!(b.op, syn::BinOp::Eq(_)) {
                                let is_p = |x: &syn::Expr| -> bool {
                                    let t = x.to_token_stream().to_string().replace(' ', "");
                                    t == pn || t == format!("*{}", pn)
                                };
                                let other = if is_p(&b.left) { Some(&b.right) } else if is_p(&b.right) { Some(&b.left) } else { None };
                                if let Some(x) = other {
                                    let xs = x.to_token_stream().to_string();
                                    // the compared value must not mention the closure parameter
                                    let mut ids = std::collections::BTreeSet::new();
                                    ts_var_idents(x.to_token_stream(), &mut ids);
                                    if !ids.contains(&pn) {
                                        let f = quote::format_ident!("{}", if which == "any" { "vx_any_eq" } else { "vx_all_eq" });
                                        let recv = &inner.receiver;
                                        let xe: syn::Expr = syn::parse_str(&xs).unwrap();
                                        repl = Some(syn::parse_quote!(#f(#recv, #xe)));
                                    }
                                }
                            }
                        }
                    }
                }
            }
        }
        if let Some(r) = repl {
            *e = r;
            *self.count += 1;
        }
    }
}

// ===================== R24 (opt-in `r24=<array length>`): `let [a, mid @ .., z] = E;` on a byte array =====================
// Sub-slice binding patterns are outside Verus (and Kani): the statement becomes
//   let __vx_arrK = E; let a = __vx_arrK[0]; let mid = vx_array_middle_<LEN>(&__vx_arrK); let z = __vx_arrK[LEN-1];
// (`vx_array_middle_<LEN>` is a prelude function returning the LEN-2 inner bytes). Only this exact shape (one leading, one `@ ..`, one trailing identifier).
struct SlicePatLet {
    len: usize,
    count: usize,
}
impl VisitMut for SlicePatLet {
    fn visit_block_mut(&mut self, b: &mut syn::Block) {
        syn::visit_mut::visit_block_mut(self, b);
        let old = std::mem::take(&mut b.stmts);
        for st in old {
            let mut done = false;
            if let syn::Stmt::Local(l) = &st {
                if let (syn::Pat::Slice(ps), Some(init)) = (&l.pat, &l.init) {
                    if ps.elems.len() == 3 && init.diverge.is_none() {
                        let id = |p: &syn::Pat| -> Option<(syn::Ident, bool)> {
                            if let syn::Pat::Ident(pi) = p {
                                let rest = matches!(pi.subpat.as_ref().map(|x| &*x.1), Some(syn::Pat::Rest(_)));
                                if pi.subpat.is_none() || rest { return Some((pi.ident.clone(), rest)); }
                            }
                            None
                        };
                        if let (Some((a, false)), Some((m, true)), Some((z, false))) = (id(&ps.elems[0]), id(&ps.elems[1]), id(&ps.elems[2])) {
                            let arr = quote::format_ident!("__vx_arr{}", self.count);
                            let f = quote::format_ident!("vx_array_middle_{}", self.len);
                            let e = &init.expr;
                            let last = self.len - 1;
                            let new: syn::Block = syn::parse_quote!({ let #arr = #e; let #a = #arr[0]; let #m = #f(&#arr); let #z = #arr[#last]; });
                            b.stmts.extend(new.stmts);
                            self.count += 1;
                            done = true;
                        }
                    }
                }
            }
            if !done {
                b.stmts.push(st);
            }
        }
    }
}

struct TxFinder {
    found: Vec<syn::ExprClosure>,
}
impl<'ast> Visit<'ast> for TxFinder {
    fn visit_expr_method_call(&mut self, m: &'ast syn::ExprMethodCall) {
        if m.method == "transaction" && m.args.len() == 1 {
            if let syn::Expr::Closure(c) = &m.args[0] {
                self.found.push(c.clone());
                // do not descend into nested transactions inside this closure for numbering purposes
                return;
            }
        }
        syn::visit::visit_expr_method_call(self, m);
    }
}
struct TxReplacer<'a> {
    next: usize,
    repl: &'a BTreeMap<usize, (String, String, String)>, // k -> (state type, fn name, args)
    stats: &'a mut Stats,
}
impl<'a> VisitMut for TxReplacer<'a> {
    fn visit_expr_mut(&mut self, e: &mut syn::Expr) {
        if let syn::Expr::MethodCall(m) = e {
            if m.method == "transaction" && m.args.len() == 1 && matches!(&m.args[0], syn::Expr::Closure(_)) {
                let k = self.next;
                self.next += 1;
                if let Some((sty, name, args)) = self.repl.get(&k) {
                    let recv = &m.receiver;
                    let sty: TokenStream = TokenStream::from_str(sty).unwrap_or_else(|_| die("bad tx state type"));
                    let name: TokenStream = TokenStream::from_str(name).unwrap_or_else(|_| die("bad tx fn name"));
                    let args: TokenStream = TokenStream::from_str(args).unwrap_or_else(|_| die("bad tx args"));
                    self.stats.tx_lifted += 1;
                    *e = syn::parse_quote!({
                        let mut __vx_st: #sty = #recv.tx_begin::<#sty>()?;
                        let __vx_r = #name(#args);
                        #recv.tx_end::<#sty, _>(__vx_st, __vx_r)
                    });
                    return;
                } else {
                    die(&format!("transaction closure #{} in an extracted function has no `tx{}=` option (R3)", k, k));
                }
            }
        }
        syn::visit_mut::visit_expr_mut(self, e);
    }
}

/// R2: `&impl Runtime` → `&mut Rt` / `&Rt`; generic `RT: Runtime` removed and `RT` → `Rt`.
struct RtTypeSubst {
    generic_names: Vec<String>,
}
impl VisitMut for RtTypeSubst {
    fn visit_path_mut(&mut self, p: &mut syn::Path) {
        syn::visit_mut::visit_path_mut(self, p);
        if let Some(first) = p.segments.first_mut() {
            if p.leading_colon.is_none() && self.generic_names.iter().any(|g| first.ident == g.as_str()) {
                first.ident = syn::Ident::new("Rt", first.ident.span());
            }
        }
    }
}

struct RenameCalls {
    from: String,
    to: String,
    count: usize,
}
impl VisitMut for RenameCalls {
    fn visit_expr_call_mut(&mut self, c: &mut syn::ExprCall) {
        syn::visit_mut::visit_expr_call_mut(self, c);
        if let syn::Expr::Path(p) = &mut *c.func {
            if p.path.segments.len() == 1 && p.path.segments[0].ident == self.from.as_str() {
                p.path.segments[0].ident = syn::Ident::new(&self.to, p.path.segments[0].ident.span());
                self.count += 1;
            }
        }
    }
}

/// R16: `M.for_each(|k, v| { BODY; Ok(()) })?;` → `for (k, v) in M.vx_entries()? { BODY }` (opt-in). The closure body must be a
/// block ending in `Ok(())` and must not contain `return` (inside the closure it would mean "next entry").
struct ForEachLoop<'a> {
    stats: &'a mut Stats,
}
struct HasReturn(bool);
impl<'ast> Visit<'ast> for HasReturn {
    fn visit_expr_return(&mut self, _: &'ast syn::ExprReturn) {
        self.0 = true;
    }
    fn visit_expr_closure(&mut self, _: &'ast syn::ExprClosure) {}
}
impl<'a> VisitMut for ForEachLoop<'a> {
    fn visit_block_mut(&mut self, b: &mut syn::Block) {
        for st in b.stmts.iter_mut() {
            let mut repl: Option<syn::Stmt> = None;
            if let syn::Stmt::Expr(syn::Expr::Try(t), Some(_)) = st {
                if let syn::Expr::MethodCall(mc) = &*t.expr {
                    if mc.method == "for_each" && mc.args.len() == 1 {
                        if let syn::Expr::Closure(c) = &mc.args[0] {
                            let body = match &*c.body {
                                syn::Expr::Block(bl) => bl.block.clone(),
                                _ => die("R16: for_each closure body is not a block"),
                            };
                            let mut stmts = body.stmts.clone();
                            let last_ok = match stmts.last() {
                                Some(syn::Stmt::Expr(e, None)) => e.to_token_stream().to_string().replace(' ', "") == "Ok(())",
                                _ => false,
                            };
                            if !last_ok {
                                die("R16: for_each closure does not end in Ok(())");
                            }
                            stmts.pop();
                            let mut hr = HasReturn(false);
                            for s in &stmts {
                                hr.visit_stmt(s);
                            }
                            if hr.0 {
                                die("R16: for_each closure contains `return`");
                            }
                            let pats: Vec<syn::Pat> = c
                                .inputs
                                .iter()
                                .map(|p| match p {
                                    syn::Pat::Type(pt) => (*pt.pat).clone(),
                                    other => other.clone(),
                                })
                                .collect();
                            let recv = &mc.receiver;
                            let fl: syn::Expr = syn::parse_quote!(for (#(#pats),*) in #recv.vx_entries()? { #(#stmts)* });
                            self.stats.for_each_loops += 1;
                            repl = Some(syn::Stmt::Expr(fl, None));
                        }
                    }
                }
            }
            if let Some(r) = repl {
                *st = r;
            }
        }
        syn::visit_mut::visit_block_mut(self, b);
    }
}

/// R17: `for (a, b) in X.iter().zip(Y) BODY` → `for __vx_zK in 0..vx_zip_len(X.len(), (Y).len()) { let a = &X[__vx_zK]; let b = &(Y)[__vx_zK]; BODY }`
/// (opt-in; both sides must be indexable by `usize` with `len()`; `Y` is usually `&vec`). Pairs are visited in order up to the shorter length.
struct ZipLoop<'a> {
    stats: &'a mut Stats,
}
impl<'a> VisitMut for ZipLoop<'a> {
    fn visit_expr_mut(&mut self, e: &mut syn::Expr) {
        syn::visit_mut::visit_expr_mut(self, e);
        if let syn::Expr::ForLoop(f) = e {
            let mut hit: Option<(syn::Expr, syn::Expr)> = None;
            if let syn::Expr::MethodCall(z) = &*f.expr {
                if z.method == "zip" && z.args.len() == 1 {
                    if let syn::Expr::MethodCall(it) = &*z.receiver {
                        if it.method == "iter" && it.args.is_empty() {
                            hit = Some(((*it.receiver).clone(), z.args[0].clone()));
                        }
                    }
                }
            }
            if let (Some((x, y)), syn::Pat::Tuple(pt)) = (hit, &*f.pat) {
                if pt.elems.len() == 2 {
                    let (pa, pb) = (&pt.elems[0], &pt.elems[1]);
                    let k = self.stats.zip_loops;
                    self.stats.zip_loops += 1;
                    let idx = quote::format_ident!("__vx_z{}", k);
                    let label = &f.label;
                    let stmts = &f.body.stmts;
                    *e = syn::parse_quote!(#label for #idx in 0..vx_zip_len(#x.len(), (#y).len()) {
                        let #pa = &#x[#idx];
                        let #pb = &(#y)[#idx];
                        #(#stmts)*
                    });
                }
            }
        }
    }
}

/// R18: `for &x in E BODY` → `for __vx_rK in E { let x = *__vx_rK; BODY }` (Verus has no ref patterns; always on)
struct RefPatFor<'a> {
    stats: &'a mut Stats,
}
impl<'a> VisitMut for RefPatFor<'a> {
    fn visit_expr_mut(&mut self, e: &mut syn::Expr) {
        syn::visit_mut::visit_expr_mut(self, e);
        if let syn::Expr::ForLoop(f) = e {
            if let syn::Pat::Reference(r) = &*f.pat {
                let inner = (*r.pat).clone();
                let k = self.stats.refpat_for;
                self.stats.refpat_for += 1;
                let id = quote::format_ident!("__vx_r{}", k);
                let stmts = f.body.stmts.clone();
                f.pat = Box::new(syn::parse_quote!(#id));
                f.body = syn::parse_quote!({ let #inner = *#id; #(#stmts)* });
            }
        }
    }
}

fn is_impl_runtime(t: &syn::Type) -> bool {
    if let syn::Type::ImplTrait(it) = t {
        for b in &it.bounds {
            if let syn::TypeParamBound::Trait(tb) = b {
                if tb.path.segments.last().map(|s| s.ident == "Runtime").unwrap_or(false) {
                    return true;
                }
            }
        }
    }
    false
}

fn strip_attrs_block(b: &mut syn::Block) {
    struct S;
    impl VisitMut for S {
        fn visit_attribute_mut(&mut self, _a: &mut syn::Attribute) {}
        fn visit_expr_mut(&mut self, e: &mut syn::Expr) {
            syn::visit_mut::visit_expr_mut(self, e);
        }
        fn visit_local_mut(&mut self, l: &mut syn::Local) {
            l.attrs.clear();
            syn::visit_mut::visit_local_mut(self, l);
        }
    }
    S.visit_block_mut(b);
}

// split contract text into (pre-ensures part, has_ensures, post part after ensures up to next section keyword)
fn vacuous_spec(spec: &str) -> String {
    // token-level: drop everything from a depth-0 `ensures` up to the next depth-0 section keyword
    let ts = match TokenStream::from_str(spec) {
        Ok(t) => t,
        Err(_) => die("contract text does not tokenize"),
    };
    let mut out = TokenStream::new();
    let mut skipping = false;
    let mut had = false;
    let mut dec = TokenStream::new();
    let mut in_dec = false;
    for t in ts {
        if let TokenTree::Ident(id) = &t {
            let s = id.to_string();
            if s == "ensures" || s == "returns" {
                skipping = true;
                in_dec = false;
                had = true;
                continue;
            }
            if s == "requires" || s == "recommends" || s == "opens_invariants" || s == "no_unwind" {
                skipping = false;
                in_dec = false;
            }
            if s == "decreases" {
                skipping = true; // moved to the end (decreases must follow ensures)
                in_dec = true;
                dec.extend(std::iter::once(t.clone()));
                continue;
            }
        }
        if in_dec {
            dec.extend(std::iter::once(t));
        } else if !skipping {
            out.extend(std::iter::once(t));
        }
    }
    let _ = had;
    let mut s = pretty(out, 1);
    s.push_str("\n    ensures false,\n");
    s.push_str(&pretty(dec, 1));
    s
}

fn count_clauses(spec: &str) -> (usize, usize) {
    // (requires clauses, ensures clauses) counted as depth-0 commas+1 per section
    let ts = TokenStream::from_str(spec).unwrap_or_default();
    let (mut req, mut ens) = (0usize, 0usize);
    let mut sec = 0; // 1 req, 2 ens
    let mut pending = false;
    for t in ts {
        match &t {
            TokenTree::Ident(id) if id == "requires" => {
                sec = 1;
                pending = false;
            }
            TokenTree::Ident(id) if id == "ensures" => {
                sec = 2;
                pending = false;
            }
            TokenTree::Ident(id) if id == "decreases" || id == "recommends" => {
                sec = 0;
            }
            TokenTree::Punct(p) if p.as_char() == ',' => {
                pending = false;
            }
            _ => {
                if !pending {
                    pending = true;
                    if sec == 1 {
                        req += 1
                    } else if sec == 2 {
                        ens += 1
                    }
                }
            }
        }
    }
    (req, ens)
}

fn const_eval(e: &syn::Expr, env: &BTreeMap<String, i128>) -> Option<i128> {
    match e {
        syn::Expr::Lit(l) => match &l.lit {
            syn::Lit::Int(i) => i.base10_parse::<i128>().ok(),
            _ => None,
        },
        syn::Expr::Paren(p) => const_eval(&p.expr, env),
        syn::Expr::Group(p) => const_eval(&p.expr, env),
        syn::Expr::Cast(c) => const_eval(&c.expr, env),
        syn::Expr::Path(p) => {
            let id = p.path.segments.last()?.ident.to_string();
            env.get(&id).copied()
        }
        syn::Expr::Unary(u) => match u.op {
            syn::UnOp::Neg(_) => const_eval(&u.expr, env).map(|v| -v),
            _ => None,
        },
        syn::Expr::Binary(b) => {
            let l = const_eval(&b.left, env)?;
            let r = const_eval(&b.right, env)?;
            match b.op {
                syn::BinOp::Add(_) => l.checked_add(r),
                syn::BinOp::Sub(_) => l.checked_sub(r),
                syn::BinOp::Mul(_) => l.checked_mul(r),
                syn::BinOp::Div(_) => if r != 0 { Some(l / r) } else { None },
                syn::BinOp::Rem(_) => if r != 0 { Some(l % r) } else { None },
                syn::BinOp::Shl(_) => if (0..100).contains(&r) { l.checked_shl(r as u32) } else { None },
                syn::BinOp::Shr(_) => if (0..127).contains(&r) { Some(l >> r) } else { None },
                _ => None,
            }
        }
        _ => None,
    }
}

struct Ctx {
    consts: BTreeMap<String, i128>,
    repo: String,
    verif: String,
    vacuity: bool,
    files: BTreeMap<String, (String, syn::File)>,
    report: Vec<String>, // JSON objects
    lazy_names: Vec<String>, // lazy_static entries turned into functions by `//@ lazyconst`
}

impl Ctx {
    fn load(&mut self, rel: &str) -> &(String, syn::File) {
        if !self.files.contains_key(rel) {
            let p = if rel.starts_with('/') { rel.to_string() } else { format!("{}/{}", self.repo, rel) };
            let src = std::fs::read_to_string(&p).unwrap_or_else(|_| die(&format!("cannot read {}", p)));
            let f = syn::parse_file(&src).unwrap_or_else(|e| die(&format!("cannot parse {}: {}", p, e)));
            self.files.insert(rel.to_string(), (src, f));
        }
        &self.files[rel]
    }
}

/// token-sequence pattern → regex that ignores whitespace differences between tokens
fn pat_regex(pat: &str) -> regex::Regex {
    let p = pretty(TokenStream::from_str(pat).unwrap_or_else(|_| die("pattern does not tokenize")), 0);
    let parts: Vec<String> = p.split_whitespace().map(|t| regex::escape(t)).collect();
    regex::Regex::new(&parts.join(r"\s+")).unwrap_or_else(|_| die("bad pattern"))
}

fn json_str(s: &str) -> String {
    let mut o = String::from("\"");
    for c in s.chars() {
        match c {
            '"' => o.push_str("\\\""),
            '\\' => o.push_str("\\\\"),
            '\n' => o.push_str("\\n"),
            '\t' => o.push_str("\\t"),
            '\r' => {}
            c if (c as u32) < 0x20 => {
                let _ = write!(o, "\\u{:04x}", c as u32);
            }
            c => o.push(c),
        }
    }
    o.push('"');
    o
}

fn fnv(s: &str) -> u64 {
    let mut h: u64 = 0xcbf29ce484222325;
    for b in s.bytes() {
        h ^= b as u64;
        h = h.wrapping_mul(0x100000001b3);
    }
    h
}

fn emit_fn(ctx: &mut Ctx, d: &FnDir, out: &mut String) {
    let (ty, name, tr) = {
        // path forms: `name`, `Type::name`, `<Type as Trait>::name`
        let p = d.path.trim();
        if let Some(rest) = p.strip_prefix('<') {
            let (inner, name) = rest.split_once(">::").unwrap_or_else(|| die(&format!("bad item path {}", p)));
            let (t, tr) = inner.split_once(" as ").unwrap_or_else(|| die(&format!("bad item path {}", p)));
            (Some(t.trim().to_string()), name.to_string(), Some(tr.trim().to_string()))
        } else if let Some((t, n)) = p.rsplit_once("::") {
            (Some(t.to_string()), n.to_string(), None)
        } else {
            (None, p.to_string(), None)
        }
    };
    let (src, file) = ctx.load(&d.file).clone();
    let mut found = vec![];
    find_fn_in_items(&file.items, ty.as_deref(), &name, tr.as_deref(), &mut found);
    if found.is_empty() {
        die(&format!("lost anchor: {} not found in {}", d.path, d.file));
    }
    let pick: usize = d.opts.get("nth").map(|s| s.parse().unwrap()).unwrap_or(0);
    if found.len() > 1 && !d.opts.contains_key("nth") {
        die(&format!("ambiguous anchor: {} occurs {} times in {} (use nth=)", d.path, found.len(), d.file));
    }
    let f = found.swap_remove(pick.min(found.len() - 1));
    let src_lines: Vec<&str> = src.lines().collect();
    let src_text = src_lines[f.span_lines.0 - 1..f.span_lines.1.min(src_lines.len())].join("\n");

    let mut stats = Stats::default();
    let mut sig = f.sig.clone();
    let mut block = f.block.clone();
    let mut vis = f.vis.clone();
    let mut closure_of: Option<usize> = None;
    let mut nested_of = false;
    let mut region_notes: Vec<String> = vec![];
    let mut region_havoc_decl: Option<String> = None;

    // ---- closure lifting (this directive extracts the k-th transaction closure as a function)
    if let Some(k) = d.opts.get("closure") {
        let k: usize = k.parse().unwrap_or_else(|_| die("closure= needs a number"));
        let mut tf = TxFinder { found: vec![] };
        tf.visit_block(&block);
        if k >= tf.found.len() {
            die(&format!("lost anchor: {} has {} transaction closures, wanted #{}", d.path, tf.found.len(), k));
        }
        let c = tf.found.swap_remove(k);
        let params = d.opts.get("params").unwrap_or_else(|| die("closure= needs params="));
        let retty = d.opts.get("retty").unwrap_or_else(|| die("closure= needs retty="));
        let newname = d.opts.get("as").unwrap_or_else(|| die("closure= needs as="));
        // sanity: every closure parameter name must be declared in params
        for inp in &c.inputs {
            let pn = match inp {
                syn::Pat::Type(pt) => pt.pat.to_token_stream().to_string(),
                other => other.to_token_stream().to_string(),
            };
            if pn == "_" {
                continue;
            }
            if !params.contains(&format!("{}:", pn)) && !params.contains(&format!("{} :", pn)) {
                die(&format!("closure parameter `{}` of {} #{} is not declared in params=", pn, d.path, k));
            }
        }
        let sigtxt = format!("fn {}({}) -> {}", newname, params, retty);
        sig = syn::parse_str::<syn::Signature>(&sigtxt).unwrap_or_else(|e| die(&format!("bad lifted signature `{}`: {}", sigtxt, e)));
        block = match *c.body {
            syn::Expr::Block(b) => b.block,
            other => syn::parse_quote!({ #other }),
        };
        vis = syn::parse_quote!(pub);
        closure_of = Some(k);
    } else if let Some(nm) = d.opts.get("nested") {
        // R14: this directive extracts the fn item `nm` nested in the body of the anchor function as a free function
        let mut got = None;
        for st in &block.stmts {
            if let syn::Stmt::Item(syn::Item::Fn(inner)) = st {
                if inner.sig.ident == nm.as_str() {
                    got = Some(inner.clone());
                }
            }
        }
        let inner = got.unwrap_or_else(|| die(&format!("lost anchor: no nested fn `{}` in {}", nm, d.path)));
        sig = inner.sig.clone();
        block = (*inner.block).clone();
        vis = syn::parse_quote!(pub);
        nested_of = true;
        if let Some(newname) = d.opts.get("as") {
            sig.ident = syn::Ident::new(newname, sig.ident.span());
        }
    } else if let Some(reg) = d.opts.get("region") {
        let (from, to) = reg.split_once("=>").unwrap_or_else(|| die("region= expects \"<from pattern>=><to pattern>\""));
        let normp = |p: &str| norm_text(TokenStream::from_str(p).unwrap_or_else(|_| die("bad region pattern")));
        let mut rf = RegionFinder { from: normp(from), to: normp(to), got: None, hits: 0 };
        rf.visit_block(&block);
        if rf.hits > 1 {
            die(&format!("ambiguous anchor: region start `{}` occurs in {} blocks of {}", rf.from, rf.hits, d.path));
        }
        let stmts = rf.got.unwrap_or_else(|| die(&format!("lost anchor: region `{}` .. `{}` not found in {}", rf.from, rf.to, d.path)));
        let params = d.opts.get("params").unwrap_or_else(|| die("region= needs params="));
        let retty = d.opts.get("retty").unwrap_or_else(|| die("region= needs retty="));
        let newname = d.opts.get("as").unwrap_or_else(|| die("region= needs as="));
        let sigtxt = format!("fn {}({}) -> {}", newname, params, retty);
        sig = syn::parse_str::<syn::Signature>(&sigtxt).unwrap_or_else(|e| die(&format!("bad lifted signature `{}`: {}", sigtxt, e)));
        let n_region = stmts.len();
        block = syn::parse_quote!({ #(#stmts)* });
        region_notes.push(format!("[region] {} top-level statement(s) `{}` .. `{}` of {} lifted into fn {}({})", n_region, rf.from, rf.to, d.path, newname, params));
        if let Some(sl) = d.opts.get("slice") {
            let csv = |k: &str| -> std::collections::BTreeSet<String> {
                d.opts.get(k).map(|v| v.split(',').map(|x| x.trim().to_string()).filter(|x| !x.is_empty()).collect()).unwrap_or_default()
            };
            let mut keep: std::collections::BTreeSet<String> = sl.split(',').map(|x| x.trim().to_string()).filter(|x| !x.is_empty()).collect();
            let declared = keep.clone();
            loop {
                let mut sc = SliceClosure { keep: &mut keep, changed: false };
                sc.visit_block(&block);
                if !sc.changed {
                    break;
                }
            }
            let havoc = csv("havoc");
            let shared = csv("shared");
            let mut pnames: Vec<(String, syn::Type)> = vec![];
            for inp in sig.inputs.iter() {
                if let syn::FnArg::Typed(pt) = inp {
                    pnames.push((pt.pat.to_token_stream().to_string(), (*pt.ty).clone()));
                }
            }
            for h in &havoc {
                if !pnames.iter().any(|(n, _)| n == h) {
                    die(&format!("havoc={} is not a parameter of the lifted region", h));
                }
                if keep.contains(h) {
                    die(&format!("havoc={} is also a slice identifier", h));
                }
            }
            let havoc_call: Option<syn::Stmt> = if havoc.is_empty() {
                None
            } else {
                let hf = quote::format_ident!("{}__havoc", newname);
                let args: Vec<syn::Ident> = pnames.iter().filter(|(n, _)| havoc.contains(n)).map(|(n, _)| quote::format_ident!("{}", n)).collect();
                Some(syn::parse_quote!(#hf(#(#args),*);))
            };
            let mut sl = Slicer { keep: keep.clone(), havoc_call, dropped: vec![], kept_simple: 0, havocs: 0, loop_vars: Default::default() };
            sl.slice_block(&mut block);
            if sl.kept_simple == 0 {
                die(&format!("lost anchor: slice={} keeps no statement of the region in {}", declared.iter().cloned().collect::<Vec<_>>().join(","), d.path));
            }
            // ---- soundness checks on what was dropped
            let mut kept_ids = std::collections::BTreeSet::new();
            ts_var_idents(block.to_token_stream(), &mut kept_ids);
            let mut ro: std::collections::BTreeSet<String> = pnames.iter().map(|(n, _)| n.clone()).filter(|n| !keep.contains(n) && !havoc.contains(n)).collect();
            for v in &sl.loop_vars {
                if !keep.contains(v) {
                    ro.insert(v.clone());
                }
            }
            for st in &sl.dropped {
                let mut ids = std::collections::BTreeSet::new();
                ts_idents(st.to_token_stream(), &mut ids);
                let short: String = norm_text(st.to_token_stream()).chars().take(70).collect();
                if ids.contains("break") || ids.contains("continue") {
                    die(&format!("unsupported construct: a statement dropped by slice= contains break/continue (`{}…`) in {}", short, d.path));
                }
                struct LetPats(std::collections::BTreeSet<String>);
                impl<'ast> Visit<'ast> for LetPats {
                    fn visit_local(&mut self, l: &'ast syn::Local) {
                        pat_idents(&l.pat, &mut self.0);
                        syn::visit::visit_local(self, l);
                    }
                }
                // only TOP-LEVEL lets of the dropped statement stay in scope for later kept statements
                if let syn::Stmt::Local(l) = st {
                    let mut lp = LetPats(Default::default());
                    lp.visit_local(l);
                    let mut own = std::collections::BTreeSet::new();
                    pat_idents(&l.pat, &mut own);
                    for i in own {
                        if kept_ids.contains(&i) {
                            die(&format!("unsupported construct: dropped `let` binds `{}`, which kept statements use (`{}…`) in {}", i, short, d.path));
                        }
                    }
                }
                let mut rc = RoCheck { ro: &ro, shared: &shared, bad: vec![] };
                rc.visit_stmt(st);
                if !rc.bad.is_empty() {
                    die(&format!("unsupported construct: dropped statement `{}…` may change a value the slice reads: {} in {}", short, rc.bad.join("; "), d.path));
                }
            }
            if !havoc.is_empty() {
                let tys: Vec<String> = pnames.iter().filter(|(n, _)| havoc.contains(n)).map(|(n, t)| format!("{}: {}", n, norm_text(t.to_token_stream()))).collect();
                region_havoc_decl = Some(format!("fn {}__havoc({})", newname, tys.join(", ")));
            }
            region_notes.push(format!(
                "[slice] slice identifiers {{{}}} (declared: {}); {} simple statement(s) kept, {} statement(s) DROPPED (no slice identifier, no break/continue, no shadowing let, read-only on {{{}}}; shared refs: {{{}}}); {} havoc call(s) over {{{}}} replace the dropped runs; early exits of dropped statements are lost",
                keep.iter().cloned().collect::<Vec<_>>().join(","),
                declared.iter().cloned().collect::<Vec<_>>().join(","),
                sl.kept_simple,
                sl.dropped.len(),
                ro.iter().cloned().collect::<Vec<_>>().join(","),
                shared.iter().cloned().collect::<Vec<_>>().join(","),
                sl.havocs,
                havoc.iter().cloned().collect::<Vec<_>>().join(","),
            ));
            for st in &sl.dropped {
                let short: String = norm_text(st.to_token_stream()).chars().take(90).collect();
                region_notes.push(format!("[slice:dropped] {}", short));
            }
        }
        if let Some(t) = d.opts.get("tail") {
            let te: syn::Expr = syn::parse_str(t).unwrap_or_else(|_| die("bad tail= expression"));
            block.stmts.push(syn::Stmt::Expr(te, None));
        }
        vis = syn::parse_quote!(pub);
        nested_of = true;
    } else if let Some(newname) = d.opts.get("as") {
        sig.ident = syn::Ident::new(newname, sig.ident.span());
    }
    // R14 in the parent: `lift="inner=>outer_name"` removes the nested fn item and renames its calls
    if let Some(l) = d.opts.get("lift") {
        let (from, to) = l.split_once("=>").unwrap_or_else(|| die("lift= expects inner=>new_name"));
        let (from, to) = (from.trim().to_string(), to.trim().to_string());
        let before = block.stmts.len();
        block.stmts.retain(|st| !matches!(st, syn::Stmt::Item(syn::Item::Fn(inner)) if inner.sig.ident == from.as_str()));
        if block.stmts.len() + 1 != before {
            die(&format!("lost anchor: lift={} found {} nested fn items in {}", from, before - block.stmts.len(), d.path));
        }
        let mut rc = RenameCalls { from, to, count: 0 };
        rc.visit_block_mut(&mut block);
        stats.nested_lifted = rc.count;
    }

    strip_attrs_block(&mut block);
    // ---- prefix extraction (opt-in): keep the statements up to and including the first one containing the pattern; the remainder of the
    //      body is replaced by a call to an auto-declared, unconstrained `<name>__rest` stub with the same signature (arbitrary result and
    //      arbitrary effect on every `&mut` parameter). Sound for properties of the form "in this situation the function returns before doing anything".
    let mut prefix_dropped: Option<usize> = None;
    if let Some(pat) = d.opts.get("prefix") {
        let patp = pretty(TokenStream::from_str(pat).unwrap_or_else(|_| die("bad prefix pattern")), 0);
        let patp: String = patp.split_whitespace().collect::<Vec<_>>().join(" ");
        let mut cut = None;
        for (i, st) in block.stmts.iter().enumerate() {
            let t: String = pretty(st.to_token_stream(), 0).split_whitespace().collect::<Vec<_>>().join(" ");
            if t.contains(&patp) {
                cut = Some(i);
                break;
            }
        }
        let cut = cut.unwrap_or_else(|| die(&format!("lost anchor: prefix pattern `{}` matches no top-level statement of {}", patp, d.path)));
        let dropped = block.stmts.len() - (cut + 1);
        block.stmts.truncate(cut + 1);
        let mut args: Vec<syn::Ident> = vec![];
        for inp in sig.inputs.iter() {
            match inp {
                syn::FnArg::Typed(pt) => match &*pt.pat {
                    syn::Pat::Ident(pi) => args.push(pi.ident.clone()),
                    syn::Pat::Wild(_) => die("prefix= needs named parameters (a `_` parameter cannot be forwarded)"),
                    _ => die("prefix= needs simple parameter patterns"),
                },
                syn::FnArg::Receiver(_) => die("prefix= is implemented for free functions only"),
            }
        }
        let rest = quote::format_ident!("{}__rest", sig.ident);
        let tail: syn::Expr = syn::parse_quote!(#rest(#(#args),*));
        block.stmts.push(syn::Stmt::Expr(tail, None));
        prefix_dropped = Some(dropped);
    }
    WildClosure.visit_block_mut(&mut block);
    if let Some(names) = d.opts.get("derefs") {
        let mut dv = DerefVars { names: names.split(',').map(|x| x.trim().to_string()).collect(), count: 0 };
        dv.visit_block_mut(&mut block);
        if dv.count == 0 {
            die(&format!("lost anchor: derefs={} matches nothing in {}", names, d.path));
        }
    }

    // ---- R3 in a parent: replace transaction calls by tx_begin / lifted fn / tx_end
    let mut repl = BTreeMap::new();
    for (k, v) in &d.opts {
        if let Some(n) = k.strip_prefix("tx") {
            if let Ok(n) = n.parse::<usize>() {
                // value: "StateType;fn_name;args"
                let parts: Vec<&str> = v.splitn(3, ';').collect();
                if parts.len() != 3 {
                    die("txN= expects \"StateType;fn_name;args\"");
                }
                repl.insert(n, (parts[0].to_string(), parts[1].to_string(), parts[2].to_string()));
            }
        }
    }
    {
        let mut tf = TxFinder { found: vec![] };
        tf.visit_block(&block);
        if !tf.found.is_empty() {
            let mut tr = TxReplacer { next: 0, repl: &repl, stats: &mut stats };
            tr.visit_block_mut(&mut block);
        }
    }

    // ---- R24 (opt-in)
    if let Some(n) = d.opts.get("r24") {
        let len: usize = n.parse().unwrap_or_else(|_| die("r24= needs the array length"));
        let mut sp = SlicePatLet { len, count: 0 };
        sp.visit_block_mut(&mut block);
        if sp.count == 0 {
            die(&format!("lost anchor: r24 finds no `let [a, mid @ .., z] = E;` in {}", d.path));
        }
        region_notes.push(format!("[R24] {} sub-slice binding pattern(s) rewritten to indexing + vx_array_middle_{}", sp.count, len));
    }
    // ---- R23 (opt-in)
    if d.opts.contains_key("r23") {
        let mut n = 0usize;
        AnyAllEq { count: &mut n }.visit_block_mut(&mut block);
        if n == 0 {
            die(&format!("lost anchor: r23 finds no `.into_iter().any/all(|p| *p == X)` in {}", d.path));
        }
        region_notes.push(format!("[R23] {} iterator any/all equality test(s) rewritten to vx_any_eq / vx_all_eq", n));
    }
    // ---- R16 (opt-in)
    if d.opts.contains_key("r16") {
        ForEachLoop { stats: &mut stats }.visit_block_mut(&mut block);
    }
    RefPatFor { stats: &mut stats }.visit_block_mut(&mut block);
    // ---- R17 (opt-in)
    if d.opts.contains_key("r17") {
        ZipLoop { stats: &mut stats }.visit_block_mut(&mut block);
    }
    // ---- R20 (opt-in)
    if d.opts.contains_key("r20") {
        ContinueElim { stats: &mut stats }.visit_block_mut(&mut block);
    }
    // ---- R19 (opt-in)
    if let Some(w) = d.opts.get("r19") {
        let which: Vec<usize> = w.split(',').map(|x| x.trim().parse().unwrap()).collect();
        ForIndex { stats: &mut stats, which, next: 0 }.visit_block_mut(&mut block);
    }
    // ---- R5 / R6
    LetChain { stats: &mut stats }.visit_block_mut(&mut block);
    if let Some(w) = d.opts.get("desugar_for") {
        let which: Vec<usize> = w.split(',').map(|x| x.trim().parse().unwrap()).collect();
        ForDesugar { stats: &mut stats, which, next: 0 }.visit_block_mut(&mut block);
    }

    // ---- R13 (opt-in)
    if d.opts.contains_key("r13") {
        GuardMatch { stats: &mut stats }.visit_block_mut(&mut block);

    }
    // ---- R10 (opt-in)
    if d.opts.contains_key("r10") || d.opts.contains_key("r10map") || d.opts.contains_key("r10rmap") {
        OptMapInline { stats: &mut stats, plain_map: d.opts.contains_key("r10map") || d.opts.contains_key("r10rmap"), result_map: d.opts.contains_key("r10rmap") }
            .visit_block_mut(&mut block);
    }

    // ---- R1
    let ops_enabled = d.opts.get("ops").map(|s| s != "keep").unwrap_or(true);
    OpRewriter { stats: &mut stats, enabled: ops_enabled }.visit_block_mut(&mut block);

    // ---- loops
    LoopMarker { next: 0, stats: &mut stats }.visit_block_mut(&mut block);

    // ---- R2 (signature)
    let rt_mode = d.opts.get("rt").cloned().unwrap_or_else(|| "mut".to_string());
    let mut generic_rt: Vec<String> = vec![];
    {
        let mut keep = syn::punctuated::Punctuated::new();
        for gp in sig.generics.params.clone() {
            let mut drop = false;
            if let syn::GenericParam::Type(tp) = &gp {
                for b in &tp.bounds {
                    if let syn::TypeParamBound::Trait(tb) = b {
                        if tb.path.segments.last().map(|s| s.ident == "Runtime").unwrap_or(false) {
                            drop = true;
                            generic_rt.push(tp.ident.to_string());
                        }
                    }
                }
            }
            if !drop {
                keep.push(gp);
            }
        }
        sig.generics.params = keep;
        if sig.generics.params.is_empty() {
            sig.generics.lt_token = None;
            sig.generics.gt_token = None;
        }
        // where-clause predicates on RT
        if let Some(wc) = &mut sig.generics.where_clause {
            let mut keepw = syn::punctuated::Punctuated::new();
            for p in wc.predicates.clone() {
                let mut drop = false;
                if let syn::WherePredicate::Type(pt) = &p {
                    let tys = pt.bounded_ty.to_token_stream().to_string();
                    if generic_rt.iter().any(|g| tys == *g || tys.starts_with(&format!("{} ::", g))) {
                        drop = true;
                    }
                    for b in &pt.bounds {
                        if let syn::TypeParamBound::Trait(tb) = b {
                            if tb.path.segments.last().map(|s| s.ident == "Runtime").unwrap_or(false) {
                                if let Some(id) = type_last_ident(&pt.bounded_ty) {
                                    generic_rt.push(id);
                                }
                                drop = true;
                            }
                        }
                    }
                }
                if !drop {
                    keepw.push(p);
                }
            }
            wc.predicates = keepw;
            if wc.predicates.is_empty() {
                sig.generics.where_clause = None;
            }
        }
        // a generic declared without inline bound but bounded in where-clause
        let mut keep2 = syn::punctuated::Punctuated::new();
        for gp in sig.generics.params.clone() {
            let mut drop = false;
            if let syn::GenericParam::Type(tp) = &gp {
                if generic_rt.iter().any(|g| tp.ident == g.as_str()) {
                    drop = true;
                }
            }
            if !drop {
                keep2.push(gp);
            }
        }
        sig.generics.params = keep2;
        if sig.generics.params.is_empty() {
            sig.generics.lt_token = None;
            sig.generics.gt_token = None;
        }
    }
    // ---- R22 (opt-in `selfmut`): `&self` becomes `&mut self`. For types that mutate through interior mutability (`RefCell` fields of
    //      FvmRuntime): with `&mut` the contract can speak about the change; the prelude's RefCell model takes `&mut self` in `replace`.
    if d.opts.contains_key("selfmut") {
        let mut n = 0;
        for inp in sig.inputs.iter_mut() {
            if let syn::FnArg::Receiver(rc) = inp {
                if rc.reference.is_some() && rc.mutability.is_none() {
                    rc.mutability = Some(Default::default());
                    if let syn::Type::Reference(tr) = &mut *rc.ty {
                        tr.mutability = Some(Default::default());
                    }
                    n += 1;
                }
            }
        }
        if n == 0 {
            die(&format!("lost anchor: selfmut on {} but it has no `&self` receiver", d.path));
        }
        region_notes.push("[R22 selfmut] receiver `&self` -> `&mut self` (interior mutability made explicit)".to_string());
    }
    for inp in sig.inputs.iter_mut() {
        if let syn::FnArg::Typed(pt) = inp {
            if let syn::Type::Reference(r) = &mut *pt.ty {
                let is_rt = is_impl_runtime(&r.elem)
                    || type_last_ident(&r.elem).map(|i| generic_rt.contains(&i)).unwrap_or(false);
                if is_rt {
                    stats.rt_params += 1;
                    let pn = pt.pat.to_token_stream().to_string();
                    let mode = d.opts.get(&format!("rt.{}", pn)).cloned().unwrap_or(rt_mode.clone());
                    *pt.ty = if mode == "ref" { syn::parse_quote!(&Rt) } else { syn::parse_quote!(&mut Rt) };
                }
            }
        }
    }
    if !generic_rt.is_empty() {
        let mut s = RtTypeSubst { generic_names: generic_rt.clone() };
        s.visit_signature_mut(&mut sig);
        s.visit_block_mut(&mut block);
    }

    // ---- opaque signature (opt-in, only with prefix=): every parameter that is not the runtime gets the placeholder type `VxOpaque`, and so
    //      does the Ok type of the result. The kept prefix must not use them (else the file does not compile → UNDECIDED).
    if d.opts.contains_key("opaque_sig") {
        if prefix_dropped.is_none() {
            die("opaque_sig requires prefix=");
        }
        for inp in sig.inputs.iter_mut() {
            if let syn::FnArg::Typed(pt) = inp {
                let t = pt.ty.to_token_stream().to_string().replace(' ', "");
                if t != "&mutRt" && t != "&Rt" {
                    *pt.ty = syn::parse_quote!(VxOpaque);
                }
            }
        }
        if let syn::ReturnType::Type(_, t) = &mut sig.output {
            let ts = t.to_token_stream().to_string().replace(' ', "");
            if ts.starts_with("Result<") {
                **t = syn::parse_quote!(Result<VxOpaque, ActorError>);
            }
        }
    }
    // ---- named return
    let retname = d.opts.get("ret").cloned().unwrap_or_else(|| "r".to_string());
    let ret_ts: TokenStream = match &sig.output {
        syn::ReturnType::Default => TokenStream::new(),
        syn::ReturnType::Type(_, t) => {
            let rn = quote::format_ident!("{}", retname);
            quote!(-> (#rn: #t))
        }
    };

    // ---- header
    let generics = &sig.generics;
    let (fn_ident, inputs) = (&sig.ident, &sig.inputs);
    let where_clause = &sig.generics.where_clause;
    let constness = &sig.constness;
    let free = d.opts.contains_key("free") || closure_of.is_some() || nested_of;
    let mut impl_header = String::new();
    if !free {
        if let Some(ov) = d.opts.get("impl") {
            impl_header = ov.clone();
        } else if let (Some(g), Some(t)) = (&f.impl_generics, &f.self_ty) {
            let wc = &g.where_clause;
            let hdr = if let (Some(tr), false) = (&f.trait_, d.opts.contains_key("inherent")) {
                quote!(impl #g #tr for #t #wc)
            } else {
                quote!(impl #g #t #wc)
            };
            impl_header = pretty(hdr, 0);
        }
    }
    // R8: restricted visibility (`pub(crate)`, `pub(super)`) has no meaning in a single-file crate
    if let syn::Visibility::Restricted(_) = vis {
        vis = syn::parse_quote!(pub);
    }
    if f.trait_.is_some() && !d.opts.contains_key("inherent") {
        vis = syn::Visibility::Inherited;
    }
    let _ = constness;
    let head = quote!(#vis fn #fn_ident #generics (#inputs) #ret_ts #where_clause);
    let head_vac = {
        let id2 = quote::format_ident!("{}__vac", fn_ident);
        quote!(#vis fn #id2 #generics (#inputs) #ret_ts #where_clause)
    };

    // ---- body text, with loop placeholders filled in
    let stmts = &block.stmts;
    let mut body = pretty(quote!(#(#stmts)*), 2);
    for k in 0..stats.loops {
        let ph = format!("__VX_LOOP_{}__", k);
        let txt = d.loops.get(&k).map(|s| format!("\n{}\n        ", s.trim_end())).unwrap_or_default();
        if !body.contains(&ph) {
            die(&format!("internal: loop placeholder {} lost", ph));
        }
        body = body.replacen(&ph, &txt, 1);
        let ih = format!("__VX_ITER_{}__ ", k);
        let it = d.loop_iters.get(&k).map(|s| format!("{}: ", s)).unwrap_or_default();
        body = body.replacen(&ih, &it, 1);
        let pe = format!("__VX_LOOPEND_{}__", k);
        if let Some(at) = d.loop_afters.get(&k) {
            // text right after the closing brace of loop k's body
            let re = regex::Regex::new(&format!(r"{}\s*\}}", regex::escape(&pe))).unwrap();
            if re.find_iter(&body).count() != 1 {
                die(&format!("internal: cannot place afterloop {} in {}", k, d.path));
            }
            body = re.replace(&body, regex::NoExpand(&format!("{} }}\n{}\n", pe, at.trim_end()))).into_owned();
        }
        let et = d.loop_ends.get(&k).map(|s| format!("\n{}\n", s.trim_end())).unwrap_or_default();
        body = body.replacen(&pe, &et, 1);
        let ps = format!("__VX_LOOPSTART_{}__", k);
        let st = d.loop_starts.get(&k).map(|s| format!("\n{}\n", s.trim_end())).unwrap_or_default();
        body = body.replacen(&ps, &st, 1);
    }
    for k in d.loops.keys() {
        if *k >= stats.loops {
            die(&format!("lost anchor: {} has {} loops but the contract names loop {}", d.path, stats.loops, k));
        }
    }
    // in-body proof anchors: text inserted after the unique statement line containing the pattern
    for (pat, txt) in &d.anchors {
        let before = pat.starts_with('\u{1}');
        let pat = pat.trim_start_matches('\u{1}');
        let patp = pretty(TokenStream::from_str(pat).unwrap_or_else(|_| die("bad anchor pattern")), 0);
        let patp = patp.trim();
        let lines: Vec<&str> = body.lines().collect();
        let hits: Vec<usize> = lines.iter().enumerate().filter(|(_, l)| l.contains(patp)).map(|(i, _)| i).collect();
        if hits.len() != 1 {
            die(&format!("lost anchor: in-body anchor `{}` matches {} statement lines in {} (must be 1)", patp, hits.len(), d.path));
        }
        let mut nb = String::new();
        for (i, l) in lines.iter().enumerate() {
            if before && i == hits[0] {
                nb.push_str(txt.trim_end());
                nb.push('\n');
            }
            nb.push_str(l);
            nb.push('\n');
            if !before && i == hits[0] {
                nb.push_str(txt.trim_end());
                nb.push('\n');
            }
        }
        body = nb;
    }
    // explicit token substitutions (each must match exactly once; listed in the report)
    let mut subs_done = vec![];
    subs_done.extend(region_notes.iter().cloned());
    for (k, v) in &d.opts {
        if k.starts_with("sub") && k[3..].chars().all(|c| c.is_ascii_digit()) && k.len() > 3 {
            let (from, to) = v.split_once("=>").unwrap_or_else(|| die("subN= expects from=>to"));
            let re = pat_regex(from);
            let n = re.find_iter(&body).count();
            if n != 1 {
                die(&format!("lost anchor: substitution `{}` matches {} times in {} (must be 1)", from.trim(), n, d.path));
            }
            body = re.replacen(&body, 1, regex::NoExpand(to.trim())).into_owned();
            subs_done.push(format!("{} => {}", from.trim(), to.trim()));
        }
    }

    // uses of `//@ lazyconst` entries: `&*NAME` / `&NAME` (deref of the lazy_static) read the function that replaced it
    for nm in &ctx.lazy_names {
        let re1 = regex::Regex::new(&format!(r"&\s*\*\s*{}\b", regex::escape(nm))).unwrap();
        let re2 = regex::Regex::new(&format!(r"&\s*{}\b(\s*\()?", regex::escape(nm))).unwrap();
        let n1 = re1.find_iter(&body).count();
        if n1 > 0 {
            body = re1.replace_all(&body, regex::NoExpand(&format!("&{}()", nm))).into_owned();
        }
        let mut n2 = 0;
        let b2 = re2.replace_all(&body, |c: &regex::Captures| {
            if c.get(1).is_some() { c[0].to_string() } else { n2 += 1; format!("&{}()", nm) }
        }).into_owned();
        body = b2;
        if n1 + n2 > 0 {
            subs_done.push(format!("[lazyconst] {} use(s) of lazy_static {} read the extracted function {}()", n1 + n2, nm, nm));
        }
    }
    for (k, v) in &d.opts {
        if k.starts_with("subopt") {
            // optional substitution: applied (every occurrence) when the pattern is present, skipped silently otherwise
            let (from, to) = v.split_once("=>").unwrap_or_else(|| die("suboptN= expects from=>to"));
            let re = pat_regex(from);
            let n = re.find_iter(&body).count();
            if n > 0 {
                body = re.replace_all(&body, regex::NoExpand(to.trim())).into_owned();
                subs_done.push(format!("{} => {} ({}x, optional)", from.trim(), to.trim(), n));
            }
        }
    }
    for (k, v) in &d.opts {
        if k.starts_with("suball") {
            let (from, to) = v.split_once("=>").unwrap_or_else(|| die("suballN= expects from=>to"));
            let re = pat_regex(from);
            let n = re.find_iter(&body).count();
            if n == 0 {
                die(&format!("lost anchor: substitution `{}` matches nothing in {}", from.trim(), d.path));
            }
            body = re.replace_all(&body, regex::NoExpand(to.trim())).into_owned();
            subs_done.push(format!("{} => {} ({}x)", from.trim(), to.trim(), n));
        }
    }
    let name_out = sig.ident.to_string();
    let qual = match (&f.self_ty, free) {
        (Some(t), false) => format!("{}::{}", type_last_ident(t).unwrap_or_default(), name_out),
        _ => name_out.clone(),
    };
    let mut emit_one = |head: TokenStream, spec: &str, tag: &str, out: &mut String| {
        let _ = writeln!(out, "//vx-begin {} {}", tag, qual);
        if !impl_header.is_empty() {
            let _ = writeln!(out, "{} {{", impl_header.trim());
            if f.trait_.is_some() && !d.opts.contains_key("inherent") && tag == "fn" {
                for a in &f.assoc {
                    let _ = writeln!(out, "    {}", pretty(a.to_token_stream(), 1).trim());
                }
            }
        }
        if let Some(a) = d.opts.get("attr") {
            let _ = writeln!(out, "    {}", a);
        }
        if tag == "vac" {
            // the vacuity clone asks for `false`: a contradiction in the requires is found at once; otherwise the query is expected to FAIL,
            // and a small resource limit (about one second) keeps that failure cheap (running out of it counts as "not vacuous")
            let _ = writeln!(out, "    #[verifier::rlimit(1)]");
        }
        let _ = writeln!(out, "    {}", pretty(head, 1).trim());
        let _ = writeln!(out, "{}", spec.trim_end());
        let _ = writeln!(out, "    {{");
        if !d.entry.trim().is_empty() {
            let _ = writeln!(out, "{}", d.entry.trim_end());
        }
        if !d.exit_.trim().is_empty() {
            die("exit blocks are not supported");
        }
        let _ = writeln!(out, "{}", body.trim_end());
        let _ = writeln!(out, "    }}");
        if !impl_header.is_empty() {
            let _ = writeln!(out, "}}");
        }
        let _ = writeln!(out, "//vx-end {} {}", tag, qual);
    };
    // explicit signature substitutions (monomorphisation of `impl Trait` parameters), listed in the report
    let mut head = head;
    let mut head_vac = head_vac;
    for (k, v) in &d.opts {
        if k.starts_with("sigsub") {
            let (from, to) = v.split_once("=>").unwrap_or_else(|| die("sigsubN= expects from=>to"));
            let fromp = pretty(TokenStream::from_str(from).unwrap_or_else(|_| die("bad sigsub")), 0);
            let h = pretty(head.clone(), 0);
            if !h.contains(fromp.trim()) {
                die(&format!("lost anchor: signature substitution `{}` matches nothing in {}", fromp.trim(), d.path));
            }
            head = TokenStream::from_str(&h.replace(fromp.trim(), to.trim())).unwrap_or_else(|_| die("sigsub result does not tokenize"));
            let hv = pretty(head_vac.clone(), 0);
            head_vac = TokenStream::from_str(&hv.replace(fromp.trim(), to.trim())).unwrap_or_else(|_| die("sigsub result does not tokenize"));
            subs_done.push(format!("[signature] {} => {}", from.trim(), to.trim()));
        }
    }
    if let Some(n) = prefix_dropped {
        let h = pretty(head.clone(), 0);
        let name = sig.ident.to_string();
        let h2 = h.replacen(&format!("fn {}", name), &format!("fn {}__rest", name), 1);
        let _ = writeln!(out, "//vx-begin rest {}", qual);
        let _ = writeln!(out, "// the last {} top-level statement(s) of {} are replaced by this unconstrained stub (prefix extraction)", n, qual);
        let _ = writeln!(out, "    #[verifier::external_body]");
        let _ = writeln!(out, "    {}", h2.trim());
        let _ = writeln!(out, "    {{ unimplemented!() }}");
        let _ = writeln!(out, "//vx-end rest {}", qual);
        subs_done.push(format!("[prefix] last {} top-level statement(s) replaced by the unconstrained stub {}__rest", n, name));
    }
    if let Some(hd) = &region_havoc_decl {
        let _ = writeln!(out, "//vx-begin rest {}", qual);
        let _ = writeln!(out, "// stands for the statements dropped by the slice: arbitrary effect on its arguments, no postcondition");
        let _ = writeln!(out, "    #[verifier::external_body]");
        let _ = writeln!(out, "    pub {}", hd);
        let _ = writeln!(out, "    {{ unimplemented!() }}");
        let _ = writeln!(out, "//vx-end rest {}", qual);
    }
    emit_one(head, &d.spec, "fn", out);
    let trait_method = f.trait_.is_some() && !d.opts.contains_key("inherent") && !free;
    if ctx.vacuity && !d.opts.contains_key("novac") && !trait_method {
        let vs = vacuous_spec(&d.spec);
        emit_one(head_vac, &vs, "vac", out);
    }

    let (nreq, nens) = count_clauses(&d.spec);
    let ninv: usize = d.loops.values().map(|s| count_clauses(&s.replace("invariant", "ensures")).1).sum();
    let rep = format!(
        "{{\"kind\":\"fn\",\"name\":{},\"file\":{},\"item\":{},\"closure\":{},\"src_lines\":[{},{}],\"src_hash\":\"{:016x}\",\"attrs_dropped\":{},\"rewrites\":{{\"R1_binops\":{},\"R1_neg\":{},\"R2_rt_params\":{},\"R3_tx_lifted\":{},\"R5_letchains\":{},\"R6_for_desugared\":{},\"R10_optmap_inlined\":{},\"R13_guard_match\":{},\"R14_nested_fn_calls_renamed\":{},\"R16_for_each_loops\":{},\"R17_zip_loops\":{},\"R18_ref_pattern_for\":{},\"R19_for_indexed\":{},\"R20_continue_eliminated\":{},\"loops\":{},\"substitutions\":[{}]}},\"clauses\":{{\"requires\":{},\"ensures\":{},\"invariants\":{}}},\"novac\":{}}}",
        json_str(&qual),
        json_str(&d.file),
        json_str(&d.path),
        closure_of.map(|k| k.to_string()).unwrap_or("null".into()),
        f.span_lines.0,
        f.span_lines.1,
        fnv(&src_text),
        f.attrs_dropped,
        stats.r1_ops,
        stats.r1_neg,
        stats.rt_params,
        stats.tx_lifted,
        stats.letchain_unfolded,
        stats.for_desugared,
        stats.optmap_inlined,
        stats.guard_match,
        stats.nested_lifted,
        stats.for_each_loops,
        stats.zip_loops,
        stats.refpat_for,
        stats.for_indexed,
        stats.continue_elim,
        stats.loops,
        subs_done.iter().map(|s| json_str(s)).collect::<Vec<_>>().join(","),
        nreq,
        nens,
        ninv,
        d.opts.contains_key("novac") || trait_method,
    );
    ctx.report.push(rep);
}

fn emit_implconst(ctx: &mut Ctx, file: &str, path: &str, spec: &str, out: &mut String) {
    let (ty, name) = path.rsplit_once("::").unwrap_or_else(|| die("implconst needs Type::NAME"));
    let (_, f) = ctx.load(file).clone();
    let mut hit: Option<(syn::ImplItemConst, syn::Type)> = None;
    for it in &f.items {
        if let syn::Item::Impl(im) = it {
            if im.trait_.is_none() && type_last_ident(&im.self_ty).as_deref() == Some(ty) {
                for ii in &im.items {
                    if let syn::ImplItem::Const(c) = ii {
                        if c.ident == name {
                            hit = Some((c.clone(), (*im.self_ty).clone()));
                        }
                    }
                }
            }
        }
    }
    let (c, self_ty) = hit.unwrap_or_else(|| die(&format!("lost anchor: associated const {} not found in {}", path, file)));
    let (id, cty, expr) = (&c.ident, &c.ty, &c.expr);
    let _ = writeln!(out, "//vx-begin fn {}", path);
    let _ = writeln!(out, "impl {} {{", pretty(self_ty.to_token_stream(), 0).trim());
    let _ = writeln!(out, "    {}", pretty(quote!(pub exec const #id : #cty), 1).trim());
    let _ = writeln!(out, "{}", spec.trim_end());
    let _ = writeln!(out, "    {{ {} }}", pretty(expr.to_token_stream(), 0).trim());
    let _ = writeln!(out, "}}");
    let _ = writeln!(out, "//vx-end fn {}", path);
    let (nreq, nens) = count_clauses(spec);
    ctx.report.push(format!(
        "{{\"kind\":\"fn\",\"name\":{},\"file\":{},\"item\":{},\"closure\":null,\"src_lines\":[{},{}],\"src_hash\":\"{:016x}\",\"attrs_dropped\":{},\"rewrites\":{{\"associated_const_as_exec_const\":1}},\"clauses\":{{\"requires\":{},\"ensures\":{},\"invariants\":0}},\"novac\":true}}",
        json_str(path), json_str(file), json_str(path),
        c.const_token.span.start().line, c.semi_token.span.end().line,
        fnv(&c.to_token_stream().to_string()), c.attrs.len(), nreq, nens
    ));
}

fn emit_item(ctx: &mut Ctx, file: &str, name: &str, opts: &BTreeMap<String, String>, out: &mut String) {
    let (_, f) = ctx.load(file).clone();
    let it = find_named_item(&f.items, name).unwrap_or_else(|| die(&format!("lost anchor: item {} not found in {}", name, file)));
    let mut it = it.clone();
    // R8: strip attributes (derives, serde, docs)
    struct Strip;
    impl VisitMut for Strip {
        fn visit_item_struct_mut(&mut self, s: &mut syn::ItemStruct) {
            s.attrs.clear();
            syn::visit_mut::visit_item_struct_mut(self, s);
        }
        fn visit_item_enum_mut(&mut self, s: &mut syn::ItemEnum) {
            s.attrs.clear();
            syn::visit_mut::visit_item_enum_mut(self, s);
        }
        fn visit_item_const_mut(&mut self, s: &mut syn::ItemConst) {
            s.attrs.clear();
            syn::visit_mut::visit_item_const_mut(self, s);
        }
        fn visit_item_type_mut(&mut self, s: &mut syn::ItemType) {
            s.attrs.clear();
        }
        fn visit_field_mut(&mut self, f: &mut syn::Field) {
            f.attrs.clear();
            // R8: field visibility is widened to `pub` (contracts of pub fns must be able to name the fields)
            f.vis = syn::parse_quote!(pub);
        }
        fn visit_variant_mut(&mut self, v: &mut syn::Variant) {
            v.attrs.clear();
            for f in v.fields.iter_mut() {
                f.attrs.clear();
            }
        }
    }
    Strip.visit_item_mut(&mut it);
    let mut folded: Option<(String, i128)> = None;
    if let syn::Item::Const(c) = &mut it {
        // integer constant expressions are folded (Verus rejects `/` in dual-mode consts); the original
        // expression is kept in a comment and in the report
        let is_lit = matches!(&*c.expr, syn::Expr::Lit(_));
        // `Address::new_id(<const int>)` is folded to the stub's struct literal (exec fn calls are not allowed in dual-mode consts)
        let mut addr_fold: Option<i128> = None;
        if let syn::Expr::Call(call) = &*c.expr {
            if call.func.to_token_stream().to_string().replace(' ', "") == "Address::new_id" && call.args.len() == 1 {
                addr_fold = const_eval(&call.args[0], &ctx.consts);
            }
        }
        if let syn::Expr::Call(call) = &*c.expr {
            if call.func.to_token_stream().to_string().replace(' ', "") == "ExitCode::new" && call.args.len() == 1 {
                if let Some(v) = const_eval(&call.args[0], &ctx.consts) {
                    folded = Some((c.expr.to_token_stream().to_string(), v));
                    let lit = syn::LitInt::new(&v.to_string(), proc_macro2::Span::call_site());
                    *c.expr = syn::parse_quote!(ExitCode { value: #lit });
                    addr_fold = None;
                }
            }
        }
        if folded.is_some() {
        } else if let Some(v) = addr_fold {
            folded = Some((c.expr.to_token_stream().to_string(), v));
            let lit = syn::LitInt::new(&v.to_string(), proc_macro2::Span::call_site());
            *c.expr = syn::parse_quote!(Address { id: #lit, proto: 0 });
        } else if let syn::Expr::Struct(st) = &mut *c.expr {
            // struct-literal constant: fold every integer field expression
            let orig = st.to_token_stream().to_string();
            let mut any = false;
            for fv in st.fields.iter_mut() {
                if !matches!(&fv.expr, syn::Expr::Lit(_)) {
                    if let Some(v) = const_eval(&fv.expr, &ctx.consts) {
                        let lit = syn::LitInt::new(&v.abs().to_string(), proc_macro2::Span::call_site());
                        fv.expr = if v >= 0 { syn::parse_quote!(#lit) } else { syn::parse_quote!(-#lit) };
                        any = true;
                    }
                }
            }
            if any {
                folded = Some((orig, 0));
            }
        } else if let Some(v) = const_eval(&c.expr, &ctx.consts) {
            ctx.consts.insert(c.ident.to_string(), v);
            if !is_lit {
                folded = Some((c.expr.to_token_stream().to_string(), v));
                let lit = syn::LitInt::new(&v.to_string(), proc_macro2::Span::call_site());
                if v >= 0 {
                    *c.expr = syn::parse_quote!(#lit);
                } else {
                    let lit = syn::LitInt::new(&(-v).to_string(), proc_macro2::Span::call_site());
                    *c.expr = syn::parse_quote!(-#lit);
                }
            }
        }
    }
    let _ = writeln!(out, "//vx-begin item {}", name);
    if let Some(a) = opts.get("attr") {
        let _ = writeln!(out, "{}", a);
    }
    let mut txt = pretty(it.to_token_stream(), 0);
    let mut tsubs = vec![];
    for (k, v) in opts {
        if k.starts_with("tsub") {
            let (from, to) = v.split_once("=>").unwrap_or_else(|| die("tsubN= expects from=>to"));
            let fromp = pretty(TokenStream::from_str(from).unwrap_or_else(|_| die("bad tsub")), 0);
            let n = txt.matches(fromp.trim()).count();
            if n == 0 {
                die(&format!("lost anchor: item substitution `{}` matches nothing in {}", fromp.trim(), name));
            }
            txt = txt.replace(fromp.trim(), to.trim());
            tsubs.push(format!("{} => {} ({}x)", from.trim(), to.trim(), n));
        }
    }
    if let Some((orig, v)) = &folded {
        let _ = writeln!(out, "// const-folded by vx: {} = {}", orig, v);
    }
    let _ = writeln!(out, "{}", txt.trim_end());
    let _ = writeln!(out, "//vx-end item {}", name);
    ctx.report.push(format!(
        "{{\"kind\":\"item\",\"name\":{},\"file\":{},\"text\":{},\"substitutions\":[{}]}}",
        json_str(name),
        json_str(file),
        json_str(txt.trim()),
        tsubs.iter().map(|x| json_str(x)).collect::<Vec<_>>().join(",")
    ));
}

fn process_text(ctx: &mut Ctx, tpl: &str, out: &mut String, depth: usize) {
    if depth > 4 {
        die("include depth exceeded");
    }
    let lines: Vec<&str> = tpl.lines().collect();
    let mut i = 0;
    while i < lines.len() {
        let l = lines[i];
        let t = l.trim_start();
        if let Some(rest) = t.strip_prefix("//@") {
            let words = split_opts(rest.trim());
            if words.is_empty() {
                i += 1;
                continue;
            }
            match words[0].as_str() {
                "include" => {
                    let p = format!("{}/{}", ctx.verif, words[1]);
                    let s = std::fs::read_to_string(&p).unwrap_or_else(|_| die(&format!("cannot read include {}", p)));
                    let _ = writeln!(out, "//vx-begin include {}", words[1]);
                    process_text(ctx, &s, out, depth + 1);
                    if !out.ends_with('\n') {
                        out.push('\n');
                    }
                    let _ = writeln!(out, "//vx-end include {}", words[1]);
                    ctx.report.push(format!("{{\"kind\":\"include\",\"path\":{}}}", json_str(&words[1])));
                    i += 1;
                }
                "item" | "const" => {
                    let mut opts = BTreeMap::new();
                    for w in &words[3..] {
                        if let Some((k, v)) = w.split_once('=') {
                            opts.insert(k.to_string(), v.to_string());
                        } else {
                            opts.insert(w.to_string(), String::new());
                        }
                    }
                    emit_item(ctx, &words[1], &words[2], &opts, out);
                    i += 1;
                }
                "opcode" => {
                    // //@ opcode <file> <NAME>: the `0xNN: NAME,` entry of the def_opcodes! table (macro-generated const)
                    let (src, _) = ctx.load(&words[1]).clone();
                    let name = &words[2];
                    let mut found: Vec<String> = vec![];
                    for l in src.lines() {
                        let t = l.trim();
                        if let Some((code, rest)) = t.split_once(':') {
                            if rest.trim().trim_end_matches(',') == name.as_str() && code.trim().starts_with("0x") {
                                found.push(code.trim().to_string());
                            }
                        }
                    }
                    if found.len() != 1 {
                        die(&format!("lost anchor: opcode {} found {} times in {}", name, found.len(), words[1]));
                    }
                    let _ = writeln!(out, "//vx-begin item {}", name);
                    let _ = writeln!(out, "pub const {}: u8 = {};", name, found[0]);
                    let _ = writeln!(out, "//vx-end item {}", name);
                    ctx.report.push(format!("{{\"kind\":\"item\",\"name\":{},\"file\":{},\"text\":{}}}", json_str(name), json_str(&words[1]), json_str(&format!("opcode table entry {}: {}", found[0], name))));
                    i += 1;
                }
                "lazyconst" => {
                    // //@ lazyconst <file> <NAME>: a `lazy_static!` entry `pub static ref NAME: BigInt = BigInt::from(<int literal>);` becomes the
                    // verified function `pub fn NAME() -> (r: BigInt) ensures r@ == <literal> { BigInt::from(<literal>) }`; uses `&*NAME` are
                    // rewritten by the unit with `suball…="& * NAME=>&NAME()"`. The VALUE is read from the source on every run.
                    let (src, _) = ctx.load(&words[1]).clone();
                    let name = &words[2];
                    let re = regex::Regex::new(&format!(r"static\s+ref\s+{}\s*:\s*(\w+)\s*=\s*(\w+)\s*::\s*from\s*\(\s*([0-9_]+)(?:[iu](?:8|16|32|64|128|size))?\s*\)\s*;", regex::escape(name))).unwrap();
                    let caps: Vec<_> = re.captures_iter(&src).collect();
                    if caps.len() != 1 {
                        die(&format!("lost anchor: lazy_static `{}` = <Type>::from(<int literal>) found {} times in {}", name, caps.len(), words[1]));
                    }
                    let (ty, ty2, lit) = (caps[0][1].to_string(), caps[0][2].to_string(), caps[0][3].to_string());
                    if ty != ty2 {
                        die(&format!("unsupported construct: lazy_static {}: {} initialised from {}", name, ty, ty2));
                    }
                    let _ = writeln!(out, "//vx-begin item {}", name);
                    let _ = writeln!(out, "#[allow(non_snake_case)] pub fn {}() -> (r: {}) ensures r@ == {} {{ {}::from({}u64) }}", name, ty, lit, ty, lit);
                    let _ = writeln!(out, "//vx-end item {}", name);
                    ctx.report.push(format!("{{\"kind\":\"item\",\"name\":{},\"file\":{},\"text\":{}}}", json_str(name), json_str(&words[1]), json_str(&format!("lazy_static {}: {} = {}::from({})", name, ty, ty, lit))));
                    ctx.lazy_names.push(name.to_string());
                    i += 1;
                }
                "implconst" => {
                    // //@ implconst <file> <Type>::<NAME>   followed by spec lines until //@ end
                    if words.len() < 3 {
                        die(&format!("line {}: //@ implconst <file> <Type::NAME>", i + 1));
                    }
                    let file = words[1].clone();
                    let path = words[2].clone();
                    i += 1;
                    let mut spec = String::new();
                    let mut closed = false;
                    while i < lines.len() {
                        let t2 = lines[i].trim_start();
                        if t2.starts_with("//@") && t2[3..].trim() == "end" {
                            closed = true;
                            i += 1;
                            break;
                        }
                        spec.push_str(lines[i]);
                        spec.push('\n');
                        i += 1;
                    }
                    if !closed {
                        die("implconst block not closed with //@ end");
                    }
                    emit_implconst(ctx, &file, &path, &spec, out);
                }
                "fn" => {
                    if words.len() < 3 {
                        die(&format!("line {}: //@ fn <file> <path> [opts]", i + 1));
                    }
                    let mut d = FnDir { file: words[1].clone(), path: words[2].clone(), line: i + 1, ..Default::default() };
                    // `<Type as Trait>::name` contains spaces: re-join if needed
                    let mut optstart = 3;
                    if d.path.starts_with('<') && !d.path.contains(">::") {
                        while optstart < words.len() {
                            d.path.push(' ');
                            d.path.push_str(&words[optstart]);
                            optstart += 1;
                            if d.path.contains(">::") {
                                break;
                            }
                        }
                    }
                    for w in &words[optstart..] {
                        if let Some((k, v)) = w.split_once('=') {
                            d.opts.insert(k.to_string(), v.to_string());
                        } else {
                            d.opts.insert(w.to_string(), String::new());
                        }
                    }
                    i += 1;
                    #[derive(PartialEq)]
                    enum Sec {
                        Spec,
                        Entry,
                        Loop(usize),
                        LoopEnd(usize),
    AfterLoop(usize),
                        LoopStart(usize),
                        After(usize),
                    }
                    let mut sec = Sec::Spec;
                    let mut closed = false;
                    while i < lines.len() {
                        let l2 = lines[i];
                        let t2 = l2.trim_start();
                        if let Some(r2) = t2.strip_prefix("//@") {
                            let w2 = split_opts(r2.trim());
                            match w2.first().map(|s| s.as_str()) {
                                Some("end") => {
                                    closed = true;
                                    i += 1;
                                    break;
                                }
                                Some("entry") => sec = Sec::Entry,
                                Some("loop") => {
                                    let k: usize = w2[1].parse().unwrap_or_else(|_| die("loop needs ordinal"));
                                    for w in &w2[2..] {
                                        if let Some(n) = w.strip_prefix("iter=") {
                                            d.loop_iters.insert(k, n.to_string());
                                        }
                                    }
                                    sec = Sec::Loop(k)
                                }
                                Some("loopstart") => {
                                    let k: usize = w2[1].parse().unwrap_or_else(|_| die("loopstart needs ordinal"));
                                    sec = Sec::LoopStart(k)
                                }
                                Some("loopend") => {
                                    let k: usize = w2[1].parse().unwrap_or_else(|_| die("loopend needs ordinal"));
                                    sec = Sec::LoopEnd(k)
                                }
                                Some("afterloop") => {
                                    let k: usize = w2[1].parse().unwrap_or_else(|_| die("afterloop needs ordinal"));
                                    sec = Sec::AfterLoop(k)
                                }
                                Some("spec") => sec = Sec::Spec,
                                Some("after") | Some("before") => {
                                    // //@ after|before "<substring of exactly one statement line>"
                                    let pat = w2.get(1).cloned().unwrap_or_else(|| die("after/before needs a pattern"));
                                    let pat = if w2.first().map(|s| s.as_str()) == Some("before") { format!("\u{1}{}", pat) } else { pat };
                                    d.anchors.push((pat, String::new()));
                                    sec = Sec::After(d.anchors.len() - 1)
                                }
                                Some("opt") => {
                                    for w in &w2[1..] {
                                        if let Some((k, v)) = w.split_once('=') {
                                            d.opts.insert(k.to_string(), v.to_string());
                                        } else {
                                            d.opts.insert(w.to_string(), String::new());
                                        }
                                    }
                                }
                                _ => die(&format!("line {}: unknown directive inside fn block: {}", i + 1, t2)),
                            }
                        } else {
                            match sec {
                                Sec::Spec => {
                                    d.spec.push_str(l2);
                                    d.spec.push('\n');
                                }
                                Sec::Entry => {
                                    d.entry.push_str(l2);
                                    d.entry.push('\n');
                                }
                                Sec::Loop(k) => {
                                    let e = d.loops.entry(k).or_default();
                                    e.push_str(l2);
                                    e.push('\n');
                                }
                                Sec::LoopStart(k) => {
                                    let e = d.loop_starts.entry(k).or_default();
                                    e.push_str(l2);
                                    e.push('\n');
                                }
                                Sec::LoopEnd(k) => {
                                    let e = d.loop_ends.entry(k).or_default();
                                    e.push_str(l2);
                                    e.push('\n');
                                }
                                Sec::AfterLoop(k) => {
                                    let e = d.loop_afters.entry(k).or_default();
                                    e.push_str(l2);
                                    e.push('\n');
                                }
                                Sec::After(k) => {
                                    d.anchors[k].1.push_str(l2);
                                    d.anchors[k].1.push('\n');
                                }
                            }
                        }
                        i += 1;
                    }
                    if !closed {
                        die(&format!("line {}: fn block not closed with //@ end", d.line));
                    }
                    emit_fn(ctx, &d, out);
                }
                other => die(&format!("line {}: unknown directive {}", i + 1, other)),
            }
        } else {
            out.push_str(l);
            out.push('\n');
            i += 1;
        }
    }
}

fn main() {
    let args: Vec<String> = std::env::args().collect();
    if args.len() < 6 {
        eprintln!("usage: vx <template> <repo-root> <verif-root> <out.rs> <out.json> [--vacuity]");
        std::process::exit(2);
    }
    let tpl = std::fs::read_to_string(&args[1]).unwrap_or_else(|_| die("cannot read template"));
    let mut ctx = Ctx {
        repo: args[2].clone(),
        verif: args[3].clone(),
        vacuity: args.iter().any(|a| a == "--vacuity"),
        consts: BTreeMap::new(),
        files: BTreeMap::new(),
        report: vec![],
        lazy_names: vec![],
    };
    let mut out = String::new();
    process_text(&mut ctx, &tpl, &mut out, 0);
    std::fs::write(&args[4], &out).unwrap_or_else(|_| die("cannot write output"));
    let rep = format!("{{\"template\":{},\"items\":[\n{}\n]}}\n", json_str(&args[1]), ctx.report.join(",\n"));
    std::fs::write(&args[5], rep).unwrap_or_else(|_| die("cannot write report"));
}
