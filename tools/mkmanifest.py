#!/usr/bin/env python3
"""Regenerates /verif/MANIFEST.json from units/<ID>/units.json (claim text lives there) — run after adding units."""
import json, os
V = os.path.dirname(os.path.dirname(os.path.abspath(__file__)))
props = [json.loads(l) for l in open(os.path.join(V, "properties.jsonl"))]
checks, na = [], []
for p in props:
    pid = p["id"]
    cfgp = os.path.join(V, "units", pid, "units.json")
    cfg = json.load(open(cfgp)) if os.path.exists(cfgp) else None
    if not cfg or not cfg.get("claim"):
        na.append({"property_id": pid, "reason": (cfg or {}).get("na_reason", "no contract unit built yet for this property (build in progress; see DESIGN.md §3)")})
        continue
    c = cfg["claim"]
    checks.append({
        "property_id": pid,
        "quick_cmd": f"./check {pid} --tier quick",
        "thorough_cmd": f"./check {pid} --tier thorough",
        "evidence_file": f"/verif/evidence/{pid}.json",
        "replay_cmd_template": f"./check {pid} --replay {{path}}",
        "engine": "verus-contracts",
        "level_claimed": {"category": "proof", "text": c["text"], "design_ref": f"DESIGN.md §3 {pid}"},
        "level_note": c["note"],
        "technique": c.get("technique", "contract-based deductive verification (Verus/Z3) of functions extracted from /repo on every run"),
    })
m = {
    "version": 1,
    "setup_cmd": "cd /verif/tools/vx && cargo build --release --offline",
    "hooks": {
        "guard": "--cfg filecoin_project_builtin_actors_verif",
        "enable": "no hook is compiled into /repo: Verus reads the source text of /repo (tools/vx) and Kani harnesses include the real source files by #[path]; nothing in /repo is changed",
        "baseline_off_cmd": "cd /repo && cargo test --workspace --no-fail-fast --offline",
        "source_commits": [],
        "add_only": True,
    },
    "engines": [
        {"name": "verus-contracts", "path": "/verif/check", "serves_properties": [c["property_id"] for c in checks],
         "kind_free_text": "tools/vx extracts the named real functions from /repo's working tree on every run, weaves the contracts of units/<ID>/*.vx.rs around the unmodified bodies (rewrites R1-R24, DESIGN §2.3 and §8.1), Verus/Z3 discharges every obligation; vacuity clone per function; Kani/CBMC for unsafe/byte-level leaves"},
    ],
    "checks": checks,
    "not_applicable": na,
    "notes": "Exit 2 (UNDECIDED) = lost anchor / unsupported construct / solver limit: never an alarm. Known findings: /verif/known_findings.json.",
}
json.dump(m, open(os.path.join(V, "MANIFEST.json"), "w"), indent=1)
print(f"{len(checks)} checks, {len(na)} not_applicable")
