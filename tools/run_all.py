#!/usr/bin/env python3
"""Runs every claimed check (quick tier) in parallel batches, validates MANIFEST and evidence, prints a summary."""
import json, os, subprocess, sys, concurrent.futures as cf
V = os.path.dirname(os.path.dirname(os.path.abspath(__file__)))
m = json.load(open(os.path.join(V, "MANIFEST.json")))
tier = sys.argv[1] if len(sys.argv) > 1 else "quick"
def run(c):
    cmd = c["quick_cmd"] if tier == "quick" else c.get("thorough_cmd", c["quick_cmd"])
    r = subprocess.run(cmd, shell=True, cwd=V, stdout=subprocess.PIPE, stderr=subprocess.STDOUT, text=True)
    return c["property_id"], r.returncode, r.stdout.strip().split("\n")[-1], [l for l in r.stdout.split("\n") if l.startswith(("VIOLATION", "KNOWN-FINDING", "UNDECIDED"))]
bad = 0
with cf.ThreadPoolExecutor(max_workers=3) as ex:
    for pid, rc, last, lines in ex.map(run, m["checks"]):
        print(f"{pid} rc={rc} {last}")
        for l in lines: print("    " + l[:200])
        if rc != 0: bad += 1
try:
    import jsonschema
    jsonschema.validate(m, json.load(open("/root/.vp/MANIFEST.schema.json")))
    es = json.load(open("/root/.vp/EVIDENCE.schema.json"))
    for c in m["checks"]:
        e = json.load(open(c["evidence_file"]))
        jsonschema.validate(e, es)
        if e["coverage"]["obligations"] != e["coverage"]["discharged"]:
            print("EVIDENCE MISMATCH", c["property_id"]); bad += 1
    print("schemas valid")
except ImportError:
    print("(jsonschema not available in this python; run with python3-vt)")
sys.exit(1 if bad else 0)
