#!/bin/bash
# tools/confirm_seeds.sh <seed-dir>... — re-run a seed's demonstration both ways on a scratch copy of /repo's tracked files:
#   demo only  -> the new test must PASS;  demo + patch -> it must FAIL.  Uses CARGO_TARGET_DIR=/repo/target (already built) and removes the copy.
for d in "$@"; do
  name=$(basename "$d"); R=/tmp/confirm_repo
  /verif/tools/mutroot.sh $R >/dev/null
  tf=$(grep -m1 '^+++ b/' "$d/demo.diff" | sed 's#^+++ b/##')
  crate_dir=$(echo "$tf" | cut -d/ -f1-2); t=$(basename "$tf" .rs)
  pkg=$(grep -m1 '^name' $R/$crate_dir/Cargo.toml | sed 's/.*"\(.*\)".*/\1/')
  (cd $R && git init -q . 2>/dev/null; patch -p1 -s < "$d/demo.diff") || { echo "$name: demo.diff does not apply"; rm -rf $R; continue; }
  a=$(cd $R && CARGO_TARGET_DIR=/repo/target cargo test --offline -p $pkg --test $t 2>&1 | grep -E "^test result" | tail -1)
  (cd $R && patch -p1 -s < "$d/patch.diff")
  b=$(cd $R && CARGO_TARGET_DIR=/repo/target cargo test --offline -p $pkg --test $t 2>&1 | grep -E "^test result" | tail -1)
  echo "$name [$pkg --test $t]  without change: $a  |  with change: $b"
  rm -rf $R
done
