#!/usr/bin/env python3
# tools/record_seed.py <worktree> <property> <round> <name> <change> <breaks> <detected_by>  — copy a delivered seed into /verif/seeded/<name>
import sys, json, os, shutil
wt, pid, rnd, name, change, breaks, detected = sys.argv[1:8]
d = f'/verif/seeded/{name}'
os.makedirs(d, exist_ok=True)
shutil.copy(f'{wt}/seed_patch.diff', d + '/patch.diff')
shutil.copy(f'{wt}/seed_demo.diff', d + '/demo.diff')
shutil.copy(f'{wt}/seed_notes.txt', d + '/agent_notes.txt')
meta = {"id": name, "property": pid, "round": int(rnd),
        "source": "independent sub-agent (given only the property text and a scratch worktree; told which earlier change not to repeat)",
        "change": change, "breaks": breaks,
        "confirmed_by_me": "pending (agent ran the demonstration both ways; see agent_notes.txt)", "detected_by": detected,
        "commands": [f"tools/mutroot.sh /tmp/mut_repo && git -C /tmp/mut_repo apply /verif/seeded/{name}/patch.diff", f"VERIF_REPO=/tmp/mut_repo ./check {pid}", "rm -rf /tmp/mut_repo"]}
json.dump(meta, open(d + '/meta.json', 'w'), indent=1, ensure_ascii=False)
print("recorded", d)
