#!/usr/bin/env python3
"""Syntactic scan (NOT a proof; reported as a scan obligation): every function of actors/miner/src/lib.rs that calls a
State method changing `locked_funds` / `initial_pledge` must itself call `notify_pledge_changed`, or every function that
calls it must. Prints one JSON object for ./check (obligations, discharged, failures, samples)."""
import json, os, re, sys
REPO = os.environ.get("VERIF_REPO", "/repo")
SRC = os.path.join(REPO, "actors/miner/src/lib.rs")
MUT = ["add_locked_funds", "unlock_vested_funds", "unlock_vested_and_unvested_funds", "add_initial_pledge",
       "repay_partial_debt_in_priority_order"]
NOTIFY = "notify_pledge_changed"

def strip(src):
    """blank out comments, string and char literals (keeps offsets)"""
    out, i, n = list(src), 0, len(src)
    def blank(a, b):
        for k in range(a, b):
            if out[k] != "\n": out[k] = " "
    while i < n:
        c = src[i]
        if src.startswith("//", i):
            j = src.find("\n", i); j = n if j < 0 else j; blank(i, j); i = j
        elif src.startswith("/*", i):
            j = src.find("*/", i + 2); j = n if j < 0 else j + 2; blank(i, j); i = j
        elif c == '"':
            j = i + 1
            while j < n and src[j] != '"':
                j += 2 if src[j] == "\\" else 1
            blank(i + 1, j); i = j + 1
        elif c == "'" and i + 2 < n and (src[i + 2] == "'" or (src[i + 1] == "\\" and src.find("'", i + 2) - i <= 6)):
            j = src.find("'", i + 2 if src[i + 1] != "\\" else i + 3); blank(i + 1, j); i = j + 1
        else:
            i += 1
    return "".join(out)

def functions(src):
    res = {}
    for m in re.finditer(r"\bfn\s+([A-Za-z_][A-Za-z0-9_]*)\s*(<[^>{;]*>)?\s*\(", src):
        name = m.group(1)
        j = src.find("{", m.end())
        semi = src.find(";", m.end())
        if j < 0 or (0 <= semi < j):
            continue
        depth, k = 0, j
        while k < len(src):
            if src[k] == "{": depth += 1
            elif src[k] == "}":
                depth -= 1
                if depth == 0: break
            k += 1
        # skip test modules
        res.setdefault(name, []).append((m.start(), src[j:k + 1], src.count("\n", 0, m.start()) + 1))
    return res

def main():
    try:
        raw = open(SRC).read()
    except OSError as e:
        print(json.dumps({"obligations": 0, "discharged": 0, "failures": [], "undecided": [{"why": f"cannot read {SRC}: {e}"}]})); return
    cut = raw.find("#[cfg(test)]")
    src = strip(raw if cut < 0 else raw[:cut])
    fns = functions(src)
    def calls(body, name): return re.search(r"(?<![A-Za-z0-9_])" + re.escape(name) + r"\s*\(", body) is not None
    bodies = {n: " ".join(b for _, b, _ in v) for n, v in fns.items()}
    lines = {n: v[0][2] for n, v in fns.items()}
    callers = {n: [m for m, b in bodies.items() if m != n and calls(b, n)] for n in bodies}
    def notified_by_all_callers(n, seen):
        cs = callers.get(n, [])
        if not cs: return False
        for c in cs:
            if c in seen: continue
            if calls(bodies[c], NOTIFY): continue
            if not notified_by_all_callers(c, seen | {c}): return False
        return True
    obl, dis, fails, samples = 0, 0, [], []
    for n, b in sorted(bodies.items()):
        muts = [m for m in MUT if calls(b, m)]
        if not muts or n in MUT: continue
        obl += 1
        ok = calls(b, NOTIFY) or notified_by_all_callers(n, {n})
        samples.append({"function": n, "line": lines[n], "mutators": muts, "notifies": ok})
        if ok: dis += 1
        else:
            fails.append({"unit": "scan:pledge_notification", "function": n, "file": "actors/miner/src/lib.rs",
                          "messages": [f"{n} (line {lines[n]}) calls {', '.join(muts)} but neither it nor all of its callers call {NOTIFY}"],
                          "verus_output": f"syntactic scan: function `{n}` at actors/miner/src/lib.rs:{lines[n]} changes locked_funds/initial_pledge via {muts} without notifying the power actor (UpdatePledgeTotal)"})
    print(json.dumps({"obligations": obl, "discharged": dis, "failures": fails, "undecided": [], "samples": samples,
                      "kind": "syntactic scan (not a proof)", "rule": __doc__.strip()}))
main()
