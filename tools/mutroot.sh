#!/bin/bash
# tools/mutroot.sh <dir> — a scratch copy of /repo's tracked files (5.8 MB, no build output) for trying mutants without touching /repo:
#   tools/mutroot.sh /tmp/mut_repo; <edit files there>; VERIF_REPO=/tmp/mut_repo ./check C16; rm -rf /tmp/mut_repo
set -e
d=${1:?usage: mutroot.sh <dir>}
rm -rf "$d"; mkdir -p "$d"
cd /repo && git ls-files -z | rsync -a --from0 --files-from=- /repo/ "$d"/
# uncommitted edits of tracked files are part of the working tree and therefore copied as they are
echo "$d ready"
