#!/usr/bin/env python3
"""Syntactic scan for C11 (NOT a proof; reported as scan obligations):
 (1) every dispatch table uses `actor_dispatch!` (which begins with restrict_internal_api) except the actors listed as
     unrestricted in the expected table; the macro itself still calls restrict_internal_api first;
 (2) for every exported method of every actor: the FIRST caller validation reached (in the method, in its first
     transaction closure, or in the helper it delegates to) has the kind and argument text recorded in
     units/C11/callers.json, and every dispatch entry maps the method name to the recorded function;
 (3) nothing state-changing (send without READ_ONLY, transaction, create, delete_actor, emit_event, set_state_root)
     textually precedes that validation, except the entries listed with their reason in callers.json.
Usage: scan_callers.py [--write-expected]   → prints one JSON object for ./check."""
import json, os, re, sys
REPO = os.environ.get("VERIF_REPO", "/repo")
V = os.path.dirname(os.path.dirname(os.path.abspath(__file__)))
EXPECTED = os.path.join(V, "units/C11/callers.json")
ACTORS = ["account", "cron", "datacap", "eam", "ethaccount", "evm", "init", "market", "miner", "multisig", "paych", "power", "reward", "system", "verifreg"]

def strip(src):
    out, i, n = list(src), 0, len(src)
    def blank(a, b):
        for k in range(a, min(b, n)):
            if out[k] != "\n": out[k] = " "
    while i < n:
        c = src[i]
        if src.startswith("//", i):
            j = src.find("\n", i); j = n if j < 0 else j; blank(i, j); i = j
        elif src.startswith("/*", i):
            j = src.find("*/", i + 2); j = n if j < 0 else j + 2; blank(i, j); i = j
        elif c == '"':
            j = i + 1
            while j < n and src[j] != '"':
                j += 2 if src[j] == "\\" else 1
            blank(i + 1, j); i = j + 1
        elif c == "'" and i + 2 < n and src[i + 1] != "\\" and src[i + 2] == "'":
            blank(i + 1, i + 2); i += 3
        elif c == "'" and i + 3 < n and src[i + 1] == "\\" and src[i + 3] == "'":
            blank(i + 1, i + 3); i += 4
        else:
            i += 1
    return "".join(out)

def match_close(src, j, o="{", c="}"):
    depth, k = 0, j
    while k < len(src):
        if src[k] == o: depth += 1
        elif src[k] == c:
            depth -= 1
            if depth == 0: return k
        k += 1
    return len(src) - 1

def functions(src):
    res = {}
    for m in re.finditer(r"\bfn\s+([A-Za-z_][A-Za-z0-9_]*)\s*(<[^>{;()]*>)?\s*\(", src):
        j = src.find("{", m.end()); semi = src.find(";", m.end())
        if j < 0 or (0 <= semi < j): continue
        k = match_close(src, j)
        res.setdefault(m.group(1), src[j:k + 1])
    return res

VAL = re.compile(r"validate_immediate_caller_(accept_any|is|type|namespace)\s*\(")
EFFECT = re.compile(r"\.\s*(send_simple|send_generalized|send|transaction|create|create_actor|delete_actor|emit_event|set_state_root)\s*(::<[^>]*>)?\s*\(")

def first_validation(body, fns, depth=0, seen=()):
    """returns (kind, argtext, prefix_text) of the first validation reached in textual order, following calls to local fns"""
    m = VAL.search(body)
    # calls to local functions that occur before the first validation in this body
    limit = m.start() if m else len(body)
    if depth < 3:
        for c in re.finditer(r"(?<![A-Za-z0-9_.])(?:Self::|self\.)?([a-z_][A-Za-z0-9_]*)\s*\(", body[:limit]):
            name = c.group(1)
            if name in fns and name not in seen and VAL.search(fns[name]):
                r = first_validation(fns[name], fns, depth + 1, seen + (name,))
                if r:
                    return (r[0], r[1], body[:c.start()] + " " + r[2], r[3] + [name])
    if not m:
        return None
    p = body.find("(", m.end() - 1)
    q = match_close(body, p, "(", ")")
    arg = re.sub(r"\s+", " ", body[p + 1:q]).strip()
    return (m.group(1), arg, body[:m.start()], [])

def effects_before(prefix):
    out = []
    for e in EFFECT.finditer(prefix):
        name = e.group(1)
        p = prefix.find("(", e.end() - 1); q = match_close(prefix, p, "(", ")")
        call = prefix[e.start():q + 1]
        if name in ("send", "send_generalized") and "READ_ONLY" in call:
            out.append("read-only send")
            continue
        if name == "transaction":
            # a transaction whose closure performs the validation first is the "validate inside tx" idiom: the prefix ends inside it
            if q >= len(prefix) - 1 or not prefix[q + 1:].strip():
                continue
            # closed transaction before validation
        out.append(name)
    return out

def scan():
    table, problems = {}, []
    for a in ACTORS:
        d = os.path.join(REPO, "actors", a, "src")
        srcs = {}
        for root, _, files in os.walk(d):
            for f in files:
                if f.endswith(".rs"):
                    raw = open(os.path.join(root, f)).read()
                    cut = raw.find("#[cfg(test)]\nmod")
                    srcs[os.path.relpath(os.path.join(root, f), REPO)] = strip(raw if cut < 0 else raw[:cut])
        lib = srcs.get(f"actors/{a}/src/lib.rs", "")
        fns = {}
        for s in [lib] + [v for k, v in sorted(srcs.items()) if not k.endswith("lib.rs")]:
            for n, b in functions(s).items(): fns.setdefault(n, b)
        m = re.search(r"(actor_dispatch(?:_unrestricted)?)!\s*\{", lib)
        if not m:
            table[a] = {"dispatch": None, "methods": {}}
            continue
        j = lib.find("{", m.end() - 1); k = match_close(lib, j)
        entries = {}
        for line in lib[j + 1:k].split(","):
            line = line.strip()
            if not line: continue
            mm = re.match(r"(?:#\[[^\]]*\]\s*)*(_|[A-Za-z0-9_|\s]+?)\s*=>\s*([a-z_][A-Za-z0-9_]*)\s*(\[[a-z_]+\])?$", line, re.S)
            if not mm:
                problems.append(f"{a}: cannot parse dispatch entry `{line}`"); continue
            names = re.sub(r"\s+", "", mm.group(1))
            func = mm.group(2)
            body = fns.get(func)
            ent = {"function": func, "tag": (mm.group(3) or "").strip("[]")}
            if body is None:
                ent.update({"kind": "MISSING", "arg": "", "effects_before": [], "via": []})
            else:
                r = first_validation(body, fns)
                if r is None:
                    ent.update({"kind": "NONE", "arg": "", "effects_before": [], "via": []})
                else:
                    ent.update({"kind": r[0], "arg": r[1], "effects_before": effects_before(r[2]), "via": r[3]})
            entries[names] = ent
        table[a] = {"dispatch": m.group(1), "methods": entries}
    # the macros themselves
    dsp = strip(open(os.path.join(REPO, "runtime/src/dispatch.rs")).read())
    mm = re.search(r"macro_rules!\s*actor_dispatch\s*\{", dsp)
    j = dsp.find("{", mm.end() - 1); k = match_close(dsp, j)
    macro_body = dsp[j:k]
    inv = macro_body.find("fn invoke_method"); b0 = macro_body.find("{", macro_body.find("RT::Blockstore", inv))
    first_stmt = re.sub(r"\s+", " ", macro_body[b0 + 1:macro_body.find(";", b0) + 1]).strip()
    table["_macro_actor_dispatch_first_statement"] = first_stmt
    return table, problems

def main():
    try:
        table, problems = scan()
    except Exception as e:
        print(json.dumps({"obligations": 0, "discharged": 0, "failures": [], "undecided": [{"why": f"scan crashed: {e!r}"}]})); return
    if "--write-expected" in sys.argv:
        json.dump(table, open(EXPECTED, "w"), indent=1, sort_keys=True); print("written", EXPECTED); return
    if "--dump" in sys.argv:
        print(json.dumps(table, indent=1, sort_keys=True)); return
    exp = json.load(open(EXPECTED))
    obl = dis = 0
    fails, samples = [], []
    def fail(actor, meth, msg):
        fails.append({"unit": "scan:caller_table", "function": f"{actor}::{meth}", "file": f"actors/{actor}/src/lib.rs",
                      "messages": [msg], "verus_output": "syntactic scan: " + msg})
    obl += 1
    if table["_macro_actor_dispatch_first_statement"] == exp["_macro_actor_dispatch_first_statement"] and "restrict_internal_api" in table["_macro_actor_dispatch_first_statement"]:
        dis += 1
    else:
        fail("runtime", "actor_dispatch!", f"first statement of invoke_method in actor_dispatch! is `{table['_macro_actor_dispatch_first_statement']}`, expected `{exp['_macro_actor_dispatch_first_statement']}`")
    for a in ACTORS:
        e, t = exp.get(a, {}), table.get(a, {})
        obl += 1
        if e.get("dispatch") == t.get("dispatch"): dis += 1
        else: fail(a, "<dispatch macro>", f"dispatch macro is {t.get('dispatch')}, expected {e.get('dispatch')}")
        for names, ee in e.get("methods", {}).items():
            obl += 1
            tt = t.get("methods", {}).get(names)
            if tt is None:
                fail(a, names, f"exported method entry `{names}` disappeared from the dispatch table"); continue
            diffs = [k for k in ("function", "tag", "kind", "arg", "via") if tt.get(k) != ee.get(k)]
            new_eff = [x for x in tt.get("effects_before", []) if x not in ee.get("effects_before", [])]
            if diffs or new_eff:
                parts = [f"{k}: `{tt.get(k)}` (expected `{ee.get(k)}`)" for k in diffs]
                if new_eff: parts.append(f"state-changing call(s) before caller validation: {new_eff}")
                fail(a, names, f"method {names} => {tt.get('function')}: " + "; ".join(parts))
            else:
                dis += 1
            if len(samples) < 8:
                samples.append({"actor": a, "methods": names, **{k: tt.get(k) for k in ("function", "kind", "arg")}})
        for names in t.get("methods", {}):
            if names not in e.get("methods", {}):
                obl += 1
                fail(a, names, f"new dispatch entry `{names}` => {t['methods'][names]['function']} is not in the expected caller table (kind={t['methods'][names]['kind']}, arg=`{t['methods'][names]['arg']}`)")
    print(json.dumps({"obligations": obl, "discharged": dis, "failures": fails, "undecided": [{"why": p} for p in problems], "samples": samples,
                      "kind": "syntactic scan (not a proof)", "rule": __doc__.strip()}))
main()
