#!/bin/sh
# F3 replay: the REAL actors/evm/src/interpreter/{memory.rs,instructions/memory.rs} (path-included by replay/evm_mem)
# interpreted by Miri for a 32-bit target (usize = 32 bits, as on wasm32, the actors' deployment target).
# Expected: thread 'main' panicked at /repo/actors/evm/src/interpreter/memory.rs:50:13: attempt to add with overflow
set -e
T=$(mktemp -d /tmp/f3_target.XXXXXX)
cd "$(dirname "$0")/../../replay/evm_mem"
[ -f Cargo.lock ] || cp /repo/Cargo.lock .
CARGO_NET_OFFLINE=true CARGO_TARGET_DIR="$T" cargo +nightly miri run --offline --target i686-unknown-linux-gnu -- f3 2>&1 | grep -v "^ *Compiling\|^ *Checking" | tail -8
rm -rf "$T"
