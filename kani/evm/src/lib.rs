//! Kani harnesses on the REAL EVM leaf code of /repo (path-included source files + the real `uint`-based U256).
//! Loop-free, fully symbolic 256-bit operands: a successful run is a complete proof for all inputs.
//! They (a) verify limb-level functions of /repo that the Verus prelude stubs at their arithmetic meaning and
//! (b) give an independent second proof of the cheapest instructions.
#![allow(dead_code, unused_imports)]
#[path = "/repo/actors/evm/src/interpreter/instructions/arithmetic.rs"]
mod arithmetic;
#[path = "/repo/actors/evm/src/interpreter/instructions/bitwise.rs"]
mod bitwise;
#[path = "/repo/actors/evm/src/interpreter/instructions/boolean.rs"]
mod boolean;

#[cfg(kani)]
mod proofs {
    use super::*;
    use fil_actors_evm_shared::uints::{U256, U512};

    fn any_u256() -> U256 { U256([kani::any(), kani::any(), kani::any(), kani::any()]) }
    /// limb-wise unsigned comparison, written independently of the uint crate
    fn lt_ref(a: &U256, b: &U256) -> bool {
        if a.0[3] != b.0[3] { return a.0[3] < b.0[3]; }
        if a.0[2] != b.0[2] { return a.0[2] < b.0[2]; }
        if a.0[1] != b.0[1] { return a.0[1] < b.0[1]; }
        a.0[0] < b.0[0]
    }
    fn eq_ref(a: &U256, b: &U256) -> bool { a.0[0] == b.0[0] && a.0[1] == b.0[1] && a.0[2] == b.0[2] && a.0[3] == b.0[3] }
    fn is01(r: &U256, b: bool) -> bool { r.0[0] == b as u64 && r.0[1] == 0 && r.0[2] == 0 && r.0[3] == 0 }

    // ---- limb-level helpers of actors/evm/shared/src/uints.rs (stubbed in prelude/u256.rs) ----
    #[kani::proof]
    fn i256_is_negative_is_top_bit() {
        let a = any_u256();
        // value >= 2^255  <=>  most significant bit set
        assert!(a.i256_is_negative() == (a.0[3] >> 63 == 1));
    }
    #[kani::proof]
    fn from_u64_value() {
        let v: u64 = kani::any();
        let r = U256::from_u64(v);
        assert!(r.0[0] == v && r.0[1] == 0 && r.0[2] == 0 && r.0[3] == 0);
        assert!(eq_ref(&U256::ZERO, &U256([0, 0, 0, 0])) && eq_ref(&U256::ONE, &U256([1, 0, 0, 0])));
        assert!(eq_ref(&U256::I256_MIN, &U256([0, 0, 0, 1 << 63])));
    }
    #[kani::proof]
    fn cmp_with_u64() {
        let a = any_u256();
        let n: u64 = kani::any();
        let nn = U256([n, 0, 0, 0]);
        assert!((a < n) == lt_ref(&a, &nn));
        assert!((a > n) == lt_ref(&nn, &a));
        assert!((a >= n) == !lt_ref(&a, &nn));
        assert!((a == n) == eq_ref(&a, &nn));
    }
    #[kani::proof]
    fn u512_conversions() {
        let a = any_u256();
        let w: U512 = a.into();
        assert!(w.0[0] == a.0[0] && w.0[1] == a.0[1] && w.0[2] == a.0[2] && w.0[3] == a.0[3]);
        assert!(w.0[4] == 0 && w.0[5] == 0 && w.0[6] == 0 && w.0[7] == 0);
        let x = U512([kani::any(), kani::any(), kani::any(), kani::any(), kani::any(), kani::any(), kani::any(), kani::any()]);
        let l = x.low_u256();
        assert!(l.0[0] == x.0[0] && l.0[1] == x.0[1] && l.0[2] == x.0[2] && l.0[3] == x.0[3]);
    }
    #[kani::proof]
    fn to_u64_saturating_spec() {
        let a = any_u256();
        let r = a.to_u64_saturating();
        if a.0[1] == 0 && a.0[2] == 0 && a.0[3] == 0 { assert!(r == a.0[0]); } else { assert!(r == u64::MAX); }
    }
    #[kani::proof]
    fn i256_cmp_spec() {
        let (a, b) = (any_u256(), any_u256());
        let (an, bn) = (a.0[3] >> 63 == 1, b.0[3] >> 63 == 1);
        let less = if an != bn { an } else { lt_ref(&a, &b) };
        assert!((a.i256_cmp(&b) == core::cmp::Ordering::Less) == less);
        assert!((a.i256_cmp(&b) == core::cmp::Ordering::Equal) == eq_ref(&a, &b));
    }

    // ---- second, independent proofs of the cheapest instructions (boolean.rs, bitwise::byte) ----
    #[kani::proof]
    fn lt_gt_eq_iszero() {
        let (a, b) = (any_u256(), any_u256());
        assert!(is01(&boolean::lt(a, b), lt_ref(&a, &b)));
        assert!(is01(&boolean::gt(a, b), lt_ref(&b, &a)));
        assert!(is01(&boolean::eq(a, b), eq_ref(&a, &b)));
        assert!(is01(&boolean::iszero(a), a.0[0] == 0 && a.0[1] == 0 && a.0[2] == 0 && a.0[3] == 0));
    }
    #[kani::proof]
    fn slt_sgt() {
        let (a, b) = (any_u256(), any_u256());
        let (an, bn) = (a.0[3] >> 63 == 1, b.0[3] >> 63 == 1);
        let less = if an != bn { an } else { lt_ref(&a, &b) };
        let greater = if an != bn { bn } else { lt_ref(&b, &a) };
        assert!(is01(&boolean::slt(a, b), less));
        assert!(is01(&boolean::sgt(a, b), greater));
    }
    #[kani::proof]
    fn and_or_xor_not() {
        let (a, b) = (any_u256(), any_u256());
        let i: usize = kani::any();
        kani::assume(i < 4);
        assert!(boolean::and(a, b).0[i] == a.0[i] & b.0[i]);
        assert!(boolean::or(a, b).0[i] == a.0[i] | b.0[i]);
        assert!(boolean::xor(a, b).0[i] == a.0[i] ^ b.0[i]);
        assert!(boolean::not(a).0[i] == !a.0[i]);
    }
    #[kani::proof]
    fn byte_spec() {
        let (i, x) = (any_u256(), any_u256());
        let r = bitwise::byte(i, x);
        if i.0[1] == 0 && i.0[2] == 0 && i.0[3] == 0 && i.0[0] < 32 {
            // i-th byte counting from the most significant end
            let k = 31 - i.0[0] as usize; // byte index from the least significant end
            let limb = x.0[k / 8];
            let want = (limb >> (8 * (k % 8))) & 0xff;
            assert!(r.0[0] == want && r.0[1] == 0 && r.0[2] == 0 && r.0[3] == 0);
        } else {
            assert!(r.0[0] == 0 && r.0[1] == 0 && r.0[2] == 0 && r.0[3] == 0);
        }
    }

    // ---- actors/evm/shared/src/address.rs: EVM-form addresses and the reserved ranges (C20) ----
    use fil_actors_evm_shared::address::EthAddress;
    fn any_eth() -> EthAddress { EthAddress(kani::any()) }
    fn all_zero(b: &[u8]) -> bool { let mut i = 0; let mut ok = true; while i < b.len() { if b[i] != 0 { ok = false; } i += 1; } ok }
    /// an embedded ID address is 0xff, eleven zero bytes, then the id big-endian; from_id/as_id are inverse; it is neither null nor a precompile
    #[kani::proof]
    #[kani::unwind(21)]
    fn eth_from_id_roundtrip() {
        let id: u64 = kani::any();
        let a = EthAddress::from_id(id);
        assert!(a.0[0] == 0xff && all_zero(&a.0[1..12]));
        assert!(a.is_id() && a.as_id() == Some(id));
        assert!(!a.is_null());
    }
    /// is_id / is_null / as_id are exactly the documented byte patterns, for all 2^160 addresses
    /// (is_precompile uses a sub-array binding pattern Kani 0.68 does not support: not covered)
    #[kani::proof]
    #[kani::unwind(21)]
    fn eth_reserved_ranges_spec() {
        let a = any_eth();
        assert!(a.is_id() == (a.0[0] == 0xff && all_zero(&a.0[1..12])));
        assert!(a.is_null() == all_zero(&a.0[..]));
        // as_id is defined exactly on embedded ID addresses and reads the last 8 bytes big-endian
        match a.as_id() {
            Some(id) => assert!(a.is_id() && id.to_be_bytes() == [a.0[12], a.0[13], a.0[14], a.0[15], a.0[16], a.0[17], a.0[18], a.0[19]]),
            None => assert!(!a.is_id()),
        }
        assert!(!(a.is_id() && a.is_null()));
    }

    // ---- SIGNEXTEND (arithmetic.rs): Yellow Paper — for a < 32, every bit above bit t = 8a+7 becomes a copy of bit t; else b unchanged ----
    fn bit_of(x: &U256, i: usize) -> bool { (x.0[i / 64] >> (i % 64)) & 1 == 1 }
    #[kani::proof]
    #[kani::unwind(5)]
    fn signextend_spec() {
        let a = any_u256();
        let b = any_u256();
        let r = arithmetic::signextend(a, b);
        let i: usize = kani::any();
        kani::assume(i < 256);
        if a.0[1] == 0 && a.0[2] == 0 && a.0[3] == 0 && a.0[0] < 32 {
            let t = 8 * (a.0[0] as usize) + 7;
            let want = if i <= t { bit_of(&b, i) } else { bit_of(&b, t) };
            assert!(bit_of(&r, i) == want);
        } else {
            assert!(bit_of(&r, i) == bit_of(&b, i));
        }
    }
}
