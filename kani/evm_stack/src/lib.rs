//! Kani harnesses for the two `unsafe` bodies of the REAL actors/evm/src/interpreter/stack.rs (`pop_many`, `dup`).
//! BOUNDED: symbolic stack length up to the stated bound (the unsafe pointer arithmetic does not depend on the
//! length beyond `len - S` / `len - i`), one harness per arity. Never counted as proved.
#![allow(dead_code, unused_imports)]
include!("gen_consts.rs");

#[path = "/repo/actors/evm/src/interpreter/stack.rs"]
pub mod stack;

#[cfg(kani)]
mod proofs {
    use super::stack::*;
    use fil_actors_evm_shared::uints::U256;
    fn any_u256() -> U256 { U256([kani::any(), kani::any(), kani::any(), kani::any()]) }
    fn eq(a: &U256, b: &U256) -> bool { a.0[0] == b.0[0] && a.0[1] == b.0[1] && a.0[2] == b.0[2] && a.0[3] == b.0[3] }
    const N: usize = 4;

    fn mk(vals: &mut [U256; N]) -> Stack {
        let mut s = Stack::new();
        let n: usize = kani::any();
        kani::assume(n <= N);
        let mut i = 0;
        while i < N {
            if i < n { vals[i] = any_u256(); s.push_unchecked(vals[i]); }
            i += 1;
        }
        s
    }

    macro_rules! pop_many_harness {
        ($name:ident, $s:expr) => {
            #[kani::proof]
            #[kani::unwind(6)]
            fn $name() {
                let mut vals = [U256::ZERO; N];
                let mut s = mk(&mut vals);
                let before = s.len();
                if before >= $s {
                    match s.pop_many::<$s>() {
                        Ok(arr) => {
                            let a = *arr;
                            let mut k = 0;
                            while k < $s { assert!(eq(&a[k], &vals[before - $s + k])); k += 1; }
                        }
                        Err(_) => { assert!(false); }
                    }
                    assert!(s.len() == before - $s);
                } else {
                    assert!(s.pop_many::<$s>().is_err());
                    assert!(s.len() == before);
                }
            }
        };
    }
    pop_many_harness!(pop_many_1, 1);
    pop_many_harness!(pop_many_2, 2);
    pop_many_harness!(pop_many_3, 3);

    #[kani::proof]
    #[kani::unwind(6)]
    fn dup_spec() {
        let mut vals = [U256::ZERO; N];
        let mut s = mk(&mut vals);
        let before = s.len();
        let i: usize = kani::any();
        kani::assume(i >= 1 && i <= N);
        let r = s.dup(i);
        if i <= before {
            assert!(r.is_ok());
            assert!(s.len() == before + 1);
            let top = s.pop().unwrap();
            assert!(eq(&top, &vals[before - i]));
        } else {
            assert!(r.is_err());
            assert!(s.len() == before);
        }
    }
}
