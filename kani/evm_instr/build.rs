// Mechanical extraction from the REAL sources, every build (nothing is copied into this crate by hand):
//  * gen_consts.rs  — the EVM exit-code constants the path-included files need (actors/evm/src/lib.rs)
//  * dispatch.rs    — the text of actors/evm/src/interpreter/instructions/mod.rs from `macro_rules! rev` to the end of the
//                     file: every `def_*!` macro definition and every opcode definition (`def_primop! { SUB(a, b) => .. }` ..)
//  * opcodes.rs     — the `0xNN: NAME,` table of `def_opcodes!` in interpreter/execution.rs as a const array
use std::{env, fs, path::Path};
fn main() {
    let repo = env::var("VERIF_REPO").unwrap_or_else(|_| "/repo".into());
    let out_dir = env::var("OUT_DIR").unwrap();
    let src = fs::read_to_string(format!("{repo}/actors/evm/src/lib.rs")).expect("lib.rs");
    let mut out = String::from("use fvm_shared::error::ExitCode;\n");
    for name in ["EVM_CONTRACT_STACK_UNDERFLOW", "EVM_CONTRACT_STACK_OVERFLOW"] {
        let pat = format!("pub const {name}: ExitCode = ExitCode::new(");
        let i = src.find(&pat).unwrap_or_else(|| panic!("lost anchor: {name}"));
        let rest = &src[i + pat.len()..];
        let j = rest.find(')').unwrap();
        out.push_str(&format!("pub const {name}: ExitCode = ExitCode::new({});\n", &rest[..j]));
    }
    fs::write(Path::new(&out_dir).join("gen_consts.rs"), out).unwrap();

    let modrs = fs::read_to_string(format!("{repo}/actors/evm/src/interpreter/instructions/mod.rs")).expect("mod.rs");
    let i = modrs.find("macro_rules! rev").expect("lost anchor: macro_rules! rev");
    // everything before it must be attributes, `mod x;` and `use ..;` lines only
    for l in modrs[..i].lines() {
        let t = l.trim();
        assert!(t.is_empty() || t.starts_with("#![") || t.starts_with("mod ") || t.starts_with("use ") || t.starts_with("//"),
            "unexpected item before the macros in instructions/mod.rs: {t}");
    }
    fs::write(Path::new(&out_dir).join("dispatch.rs"), &modrs[i..]).unwrap();

    let exe = fs::read_to_string(format!("{repo}/actors/evm/src/interpreter/execution.rs")).expect("execution.rs");
    let mut tab = String::from("pub const OPCODES: &[(u8, &str)] = &[\n");
    let mut n = 0;
    for l in exe.lines() {
        let t = l.trim();
        if let Some((code, rest)) = t.split_once(':') {
            let code = code.trim();
            let name = rest.trim().trim_end_matches(',');
            if (code.starts_with("0x") || code.starts_with("0X")) && code.len() == 4 && !name.is_empty()
                && name.chars().all(|c| c.is_ascii_uppercase() || c.is_ascii_digit()) && rest.trim().ends_with(',') {
                tab.push_str(&format!("    ({code}, \"{name}\"),\n"));
                n += 1;
            }
        }
    }
    tab.push_str("];\n");
    assert!(n > 100, "lost anchor: opcode table");
    fs::write(Path::new(&out_dir).join("opcodes.rs"), tab).unwrap();
    println!("cargo:rerun-if-changed={repo}/actors/evm/src/lib.rs");
    println!("cargo:rerun-if-changed={repo}/actors/evm/src/interpreter/instructions/mod.rs");
    println!("cargo:rerun-if-changed={repo}/actors/evm/src/interpreter/execution.rs");
    println!("cargo:rerun-if-env-changed=VERIF_REPO");
}
