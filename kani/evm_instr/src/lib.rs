//! Kani harnesses of the EVM-instruction unit (C17, /verif/.work/evm-instr). Two groups.
//!
//! (A) `push_*`: the REAL actors/evm/src/interpreter/instructions/stack.rs (path-included, with its real `be_u64!`/`be_shift!`
//!     macros), the real interpreter/stack.rs and the real `uint`-based U256; code bytes fully symbolic. These discharge the
//!     assumption the Verus prelude makes about `be_u64!`.
//!
//! (B) `d_*`: the macro-generated opcode wrappers of actors/evm/src/interpreter/instructions/mod.rs. build.rs copies the text of
//!     that file from `macro_rules! rev` to its end (all `def_*!` macros and all ~150 opcode definitions) into OUT_DIR at every
//!     build and it is `include!`d below, so what runs IS the repository's macro text. What is NOT the repository's: the
//!     `Machine`/`ExecutionState`/`System`/`Bytecode`/`Output` types are structural twins with the same field names (the macros
//!     only use field names), and every instruction function the wrappers call (`arithmetic::sub`, `memory::mstore`, ...) is a
//!     RECORDER with the same name and arity that stores its arguments in call order. The `Stack` (with its unsafe `pop_many`)
//!     and the stack instructions `push/dup/swap/pop` are the real files. Each harness proves, for fully symbolic 256-bit
//!     operands: the wrapper calls exactly the named function once, the value on TOP of the stack (Yellow Paper µ_s[0]) is its
//!     first operand argument, µ_s[1] the second, ..., the operands are removed, the result (if any) is pushed on top of the
//!     untouched rest of the stack, and the program counter moves as specified.
#![allow(dead_code, unused_imports, static_mut_refs, non_snake_case)]
include!(concat!(env!("OUT_DIR"), "/gen_consts.rs"));
include!(concat!(env!("OUT_DIR"), "/opcodes.rs"));

pub mod interpreter {
    #[path = "/repo/actors/evm/src/interpreter/stack.rs"]
    pub mod stack;
}
#[path = "/repo/actors/evm/src/interpreter/instructions/stack.rs"]
pub mod instr_stack;

// ---------------------------------------------------------------------------------------------------------------------
// Yellow Paper appendix H.2 (+ EIP-1153, EIP-3855, EIP-5656, EIP-7939, EIP-4399, EIP-3198, EIP-1344, EIP-1884): opcode values.
// Checked at COMPILE TIME against the table extracted from execution.rs: every opcode the interpreter defines must have the
// value the specification gives it.
// ---------------------------------------------------------------------------------------------------------------------
pub const YP_OPCODES: &[(u8, &str)] = &[
    (0x00, "STOP"), (0x01, "ADD"), (0x02, "MUL"), (0x03, "SUB"), (0x04, "DIV"), (0x05, "SDIV"), (0x06, "MOD"), (0x07, "SMOD"),
    (0x08, "ADDMOD"), (0x09, "MULMOD"), (0x0a, "EXP"), (0x0b, "SIGNEXTEND"),
    (0x10, "LT"), (0x11, "GT"), (0x12, "SLT"), (0x13, "SGT"), (0x14, "EQ"), (0x15, "ISZERO"), (0x16, "AND"), (0x17, "OR"),
    (0x18, "XOR"), (0x19, "NOT"), (0x1a, "BYTE"), (0x1b, "SHL"), (0x1c, "SHR"), (0x1d, "SAR"), (0x1e, "CLZ"),
    (0x20, "KECCAK256"),
    (0x30, "ADDRESS"), (0x31, "BALANCE"), (0x32, "ORIGIN"), (0x33, "CALLER"), (0x34, "CALLVALUE"), (0x35, "CALLDATALOAD"),
    (0x36, "CALLDATASIZE"), (0x37, "CALLDATACOPY"), (0x38, "CODESIZE"), (0x39, "CODECOPY"), (0x3a, "GASPRICE"),
    (0x3b, "EXTCODESIZE"), (0x3c, "EXTCODECOPY"), (0x3d, "RETURNDATASIZE"), (0x3e, "RETURNDATACOPY"), (0x3f, "EXTCODEHASH"),
    (0x40, "BLOCKHASH"), (0x41, "COINBASE"), (0x42, "TIMESTAMP"), (0x43, "NUMBER"), (0x44, "PREVRANDAO"), (0x45, "GASLIMIT"),
    (0x46, "CHAINID"), (0x47, "SELFBALANCE"), (0x48, "BASEFEE"),
    (0x50, "POP"), (0x51, "MLOAD"), (0x52, "MSTORE"), (0x53, "MSTORE8"), (0x54, "SLOAD"), (0x55, "SSTORE"), (0x56, "JUMP"),
    (0x57, "JUMPI"), (0x58, "PC"), (0x59, "MSIZE"), (0x5a, "GAS"), (0x5b, "JUMPDEST"), (0x5c, "TLOAD"), (0x5d, "TSTORE"),
    (0x5e, "MCOPY"), (0x5f, "PUSH0"),
    (0x60, "PUSH1"), (0x61, "PUSH2"), (0x62, "PUSH3"), (0x63, "PUSH4"), (0x64, "PUSH5"), (0x65, "PUSH6"), (0x66, "PUSH7"),
    (0x67, "PUSH8"), (0x68, "PUSH9"), (0x69, "PUSH10"), (0x6a, "PUSH11"), (0x6b, "PUSH12"), (0x6c, "PUSH13"), (0x6d, "PUSH14"),
    (0x6e, "PUSH15"), (0x6f, "PUSH16"), (0x70, "PUSH17"), (0x71, "PUSH18"), (0x72, "PUSH19"), (0x73, "PUSH20"), (0x74, "PUSH21"),
    (0x75, "PUSH22"), (0x76, "PUSH23"), (0x77, "PUSH24"), (0x78, "PUSH25"), (0x79, "PUSH26"), (0x7a, "PUSH27"), (0x7b, "PUSH28"),
    (0x7c, "PUSH29"), (0x7d, "PUSH30"), (0x7e, "PUSH31"), (0x7f, "PUSH32"),
    (0x80, "DUP1"), (0x81, "DUP2"), (0x82, "DUP3"), (0x83, "DUP4"), (0x84, "DUP5"), (0x85, "DUP6"), (0x86, "DUP7"), (0x87, "DUP8"),
    (0x88, "DUP9"), (0x89, "DUP10"), (0x8a, "DUP11"), (0x8b, "DUP12"), (0x8c, "DUP13"), (0x8d, "DUP14"), (0x8e, "DUP15"), (0x8f, "DUP16"),
    (0x90, "SWAP1"), (0x91, "SWAP2"), (0x92, "SWAP3"), (0x93, "SWAP4"), (0x94, "SWAP5"), (0x95, "SWAP6"), (0x96, "SWAP7"), (0x97, "SWAP8"),
    (0x98, "SWAP9"), (0x99, "SWAP10"), (0x9a, "SWAP11"), (0x9b, "SWAP12"), (0x9c, "SWAP13"), (0x9d, "SWAP14"), (0x9e, "SWAP15"), (0x9f, "SWAP16"),
    (0xa0, "LOG0"), (0xa1, "LOG1"), (0xa2, "LOG2"), (0xa3, "LOG3"), (0xa4, "LOG4"),
    (0xf0, "CREATE"), (0xf1, "CALL"), (0xf3, "RETURN"), (0xf4, "DELEGATECALL"), (0xf5, "CREATE2"), (0xfa, "STATICCALL"),
    (0xfd, "REVERT"), (0xfe, "INVALID"), (0xff, "SELFDESTRUCT"),
];
const fn str_eq(a: &str, b: &str) -> bool {
    let (a, b) = (a.as_bytes(), b.as_bytes());
    if a.len() != b.len() { return false; }
    let mut i = 0;
    while i < a.len() { if a[i] != b[i] { return false; } i += 1; }
    true
}
/// every entry of the interpreter's table occurs in the specification table with the same value, and no value is used twice
const fn table_ok() -> bool {
    let mut i = 0;
    while i < OPCODES.len() {
        let mut found = false;
        let mut j = 0;
        while j < YP_OPCODES.len() {
            if str_eq(OPCODES[i].1, YP_OPCODES[j].1) { if OPCODES[i].0 != YP_OPCODES[j].0 { return false; } found = true; }
            j += 1;
        }
        if !found { return false; }
        let mut k = i + 1;
        while k < OPCODES.len() { if OPCODES[k].0 == OPCODES[i].0 { return false; } k += 1; }
        i += 1;
    }
    true
}
/// evaluated by rustc at compile time; `cargo build` rejects a wrong table through the assertion below, `cargo kani` (which does not
/// evaluate unreferenced constants) through the harness `opcode_table_matches_specification`
pub const TABLE_OK: bool = table_ok();
const _: () = assert!(TABLE_OK, "opcode table of execution.rs disagrees with the Yellow Paper / EIP opcode values");

// ---------------------------------------------------------------------------------------------------------------------
// structural twins + recorders
// ---------------------------------------------------------------------------------------------------------------------
pub mod twin {
    use crate::interpreter::stack::Stack;
    use fil_actors_evm_shared::uints::U256;
    pub trait Runtime {}
    pub struct NoRt;
    impl Runtime for NoRt {}
    pub struct System<'a, RT: Runtime> { pub rt: &'a RT }
    pub struct ExecutionState { pub stack: Stack }
    pub struct Bytecode { pub code: [u8; 40], pub len: usize }
    impl core::ops::Deref for Bytecode { type Target = [u8]; fn deref(&self) -> &[u8] { &self.code[..self.len] } }
    impl AsRef<[u8]> for Bytecode { fn as_ref(&self) -> &[u8] { &self.code[..self.len] } }
    #[derive(Default, Clone, Copy, PartialEq, Eq)]
    pub struct Output { pub tag: u64 }
    pub struct Machine<'r, 'a, RT: Runtime + 'a> {
        pub system: &'r mut System<'a, RT>,
        pub state: &'r mut ExecutionState,
        pub bytecode: &'r Bytecode,
        pub pc: usize,
        pub output: Output,
    }
    /// what the recorders saw
    pub struct Rec { pub calls: usize, pub name: &'static str, pub n: usize, pub args: [U256; 8], pub pc: usize, pub extra: usize, pub code_len: usize }
    pub static mut REC: Rec = Rec { calls: 0, name: "", n: 0, args: [U256::ZERO; 8], pc: 0, extra: 0, code_len: 0 };
    /// what the recorders answer
    pub static mut RET: U256 = U256::ZERO;
    pub static mut RET_PC: usize = 0;
    pub static mut RET_OUT: u64 = 0;
    pub fn record(name: &'static str, args: &[U256]) {
        unsafe {
            REC.calls += 1;
            REC.name = name;
            REC.n = args.len();
            let mut i = 0;
            while i < args.len() && i < 8 { REC.args[i] = args[i]; i += 1; }
        }
    }
}

/// the instruction modules the wrappers name, as recorders
macro_rules! rec_prim { ($($f:ident($($a:ident),*);)*) => { $(pub fn $f($($a: U256),*) -> U256 { record(concat!(module_path!(), "::", stringify!($f)), &[$($a),*]); unsafe { RET } })* } }
macro_rules! rec_fun { ($($f:ident($($a:ident),*);)*) => { $(pub fn $f<S>(_st: &mut ExecutionState, _sys: S $(, $a: U256)*) -> Result<U256, ActorError> { record(concat!(module_path!(), "::", stringify!($f)), &[$($a),*]); Ok(unsafe { RET }) })* } }
macro_rules! rec_proc { ($($f:ident($($a:ident),*);)*) => { $(pub fn $f<S>(_st: &mut ExecutionState, _sys: S $(, $a: U256)*) -> Result<(), ActorError> { record(concat!(module_path!(), "::", stringify!($f)), &[$($a),*]); Ok(()) })* } }
macro_rules! rec_exit { ($($f:ident($($a:ident),*);)*) => { $(pub fn $f<S>(_st: &mut ExecutionState, _sys: S, pc: usize $(, $a: U256)*) -> Result<Output, ActorError> { record(concat!(module_path!(), "::", stringify!($f)), &[$($a),*]); unsafe { REC.pc = pc; Ok(Output { tag: RET_OUT }) } })* } }

pub mod dispatch {
    use crate::twin::*;
    use fil_actors_evm_shared::uints::U256;
    use fil_actors_runtime::ActorError;
    /// REAL: actors/evm/src/interpreter/instructions/stack.rs
    pub use crate::instr_stack as stack;
    pub mod arithmetic { use super::*; rec_prim! { add(a, b); mul(a, b); sub(a, b); div(a, b); sdiv(a, b); modulo(a, b); smod(a, b); addmod(a, b, c); mulmod(a, b, c); exp(a, b); signextend(a, b); } }
    pub mod boolean { use super::*; rec_prim! { lt(a, b); gt(a, b); slt(a, b); sgt(a, b); eq(a, b); iszero(a); and(a, b); or(a, b); xor(a, b); not(a); } }
    pub mod bitwise { use super::*; rec_prim! { byte(a, b); shl(a, b); shr(a, b); sar(a, b); clz(a); } }
    pub mod hash { use super::*; rec_fun! { keccak256(a, b); } }
    pub mod context { use super::*; rec_fun! { address(); origin(); caller(); call_value(); gas_price(); blockhash(a); coinbase(); timestamp(); block_number(); prevrandao(); gas_limit(); chain_id(); base_fee(); gas(); } }
    pub mod state { use super::*; rec_fun! { balance(a); selfbalance(); } }
    pub mod ext { use super::*; rec_fun! { extcodesize(a); extcodehash(a); } rec_proc! { extcodecopy(a, b, c, d); } }
    pub mod memory { use super::*; rec_fun! { mload(a); msize(); } rec_proc! { mstore(a, b); mstore8(a, b); mcopy(a, b, c); } }
    pub mod storage { use super::*; rec_fun! { sload(a); tload(a); } rec_proc! { sstore(a, b); tstore(a, b); } }
    pub mod lifecycle { use super::*; rec_fun! { create(a, b, c); create2(a, b, c, d); } rec_exit! { selfdestruct(a); } }
    pub mod call {
        use super::*;
        rec_fun! { calldataload(a); calldatasize(); call_call(a, b, c, d, e, f, g); call_delegatecall(a, b, c, d, e, f); call_staticcall(a, b, c, d, e, f); }
        rec_proc! { calldatacopy(a, b, c); }
        pub fn codesize<S>(_st: &mut ExecutionState, _sys: S, code: &[u8]) -> Result<U256, ActorError> { record("call::codesize", &[]); unsafe { REC.code_len = code.len(); Ok(RET) } }
        pub fn codecopy<S>(_st: &mut ExecutionState, _sys: S, code: &[u8], a: U256, b: U256, c: U256) -> Result<(), ActorError> { record("call::codecopy", &[a, b, c]); unsafe { REC.code_len = code.len(); } Ok(()) }
    }
    pub mod log_event {
        use super::*;
        pub fn log<S>(_st: &mut ExecutionState, _sys: S, ntopics: usize, a: U256, b: U256, topics: &[U256]) -> Result<(), ActorError> {
            let mut all = [U256::ZERO; 8];
            all[0] = a; all[1] = b;
            let mut i = 0;
            while i < topics.len() && i < 4 { all[2 + i] = topics[i]; i += 1; }
            record("log_event::log", &all[..2 + topics.len()]);
            unsafe { REC.extra = ntopics; }
            Ok(())
        }
    }
    pub mod control {
        use super::*;
        rec_fun! { returndatasize(); } rec_proc! { returndatacopy(a, b, c); nop(); invalid(); } rec_exit! { ret(a, b); revert(a, b); stop(); }
        pub fn jump(code: &Bytecode, pc: usize, dest: U256) -> Result<usize, ActorError> { record("control::jump", &[dest]); unsafe { REC.pc = pc; REC.code_len = code.len; Ok(RET_PC) } }
        pub fn jumpi(code: &Bytecode, pc: usize, dest: U256, test: U256) -> Result<usize, ActorError> { record("control::jumpi", &[dest, test]); unsafe { REC.pc = pc; REC.code_len = code.len; Ok(RET_PC) } }
    }
    // ---- the REAL macro definitions and opcode definitions of instructions/mod.rs, extracted by build.rs ----
    include!(concat!(env!("OUT_DIR"), "/dispatch.rs"));
}

#[cfg(kani)]
mod proofs {
    use super::dispatch;
    use super::instr_stack::push;
    use super::interpreter::stack::Stack;
    use super::twin::*;
    use fil_actors_evm_shared::uints::U256;

    fn any_u256() -> U256 { U256([kani::any(), kani::any(), kani::any(), kani::any()]) }
    fn eq(a: &U256, b: &U256) -> bool { a.0[0] == b.0[0] && a.0[1] == b.0[1] && a.0[2] == b.0[2] && a.0[3] == b.0[3] }

    #[kani::proof]
    fn opcode_table_matches_specification() { assert!(crate::TABLE_OK); assert!(crate::OPCODES.len() > 100); }

    // ================================================== (A) PUSHn on the real stack.rs ==================================================
    /// reference: the Yellow-Paper value of PUSHn as four 64-bit limbs, written independently of the code under test:
    /// byte k of the immediate (0 = most significant) is code[k] if k < avail, else 0; it lands at byte position n-1-k.
    fn want<const N: usize>(code: &[u8], avail: usize) -> [u64; 4] {
        let mut w = [0u64; 4];
        let mut k = 0;
        while k < N {
            let b = if k < avail { code[k] } else { 0 };
            let pos = N - 1 - k; // byte position from the least significant end
            w[pos / 8] |= (b as u64) << (8 * (pos % 8));
            k += 1;
        }
        w
    }
    fn check_push<const N: usize>() {
        let code: [u8; 33] = kani::any();
        let avail: usize = kani::any();
        kani::assume(avail <= 33);
        let mut s = Stack::new();
        let r = push::<N>(&mut s, &code[..avail]);
        match r {
            Ok(n) => assert!(n == N),
            Err(_) => assert!(false),
        }
        assert!(s.len() == 1);
        let v = s.pop().unwrap();
        let w = want::<N>(&code, avail);
        assert!(v.0[0] == w[0] && v.0[1] == w[1] && v.0[2] == w[2] && v.0[3] == w[3]);
    }
    macro_rules! push_harness { ($($name:ident = $n:expr;)*) => { $(#[kani::proof] #[kani::unwind(34)] fn $name() { check_push::<$n>() })* } }
    push_harness! {
        push_00 = 0; push_01 = 1; push_02 = 2; push_03 = 3; push_04 = 4; push_05 = 5; push_06 = 6; push_07 = 7; push_08 = 8;
        push_09 = 9; push_10 = 10; push_11 = 11; push_12 = 12; push_13 = 13; push_14 = 14; push_15 = 15; push_16 = 16;
        push_17 = 17; push_18 = 18; push_19 = 19; push_20 = 20; push_21 = 21; push_22 = 22; push_23 = 23; push_24 = 24;
        push_25 = 25; push_26 = 26; push_27 = 27; push_28 = 28; push_29 = 29; push_30 = 30; push_31 = 31; push_32 = 32;
    }

    // ================================================== (A') the uint-crate conversions stubbed in prelude/evm_instr_bytes.rs ==================================================
    /// `U256::from_big_endian(slice)` for every slice of at most 32 symbolic bytes: the big-endian integer of exactly those bytes
    /// (prelude: `r@ == be_at(slice@, 0, len)`), limb by limb
    #[kani::proof]
    #[kani::unwind(34)]
    fn u256_from_big_endian_spec() {
        let bytes: [u8; 32] = kani::any();
        let n: usize = kani::any();
        kani::assume(n <= 32);
        let v = U256::from_big_endian(&bytes[..n]);
        let mut w = [0u64; 4];
        let mut k = 0;
        while k < n {
            let pos = n - 1 - k; // byte position from the least significant end
            w[pos / 8] |= (bytes[k] as u64) << (8 * (pos % 8));
            k += 1;
        }
        assert!(v.0[0] == w[0] && v.0[1] == w[1] && v.0[2] == w[2] && v.0[3] == w[3]);
    }
    /// `v.write_as_big_endian(&mut buf[a..a+32])`: byte k of the window is (v / 2^(8·(31−k))) mod 256 (prelude: `be_byte(v@, k)`),
    /// nothing outside the window changes
    #[kani::proof]
    #[kani::unwind(42)]
    fn u256_write_as_big_endian_spec() {
        let v = any_u256();
        let before: [u8; 40] = kani::any();
        let mut buf = before;
        let a: usize = kani::any();
        kani::assume(a <= 8);
        v.write_as_big_endian(&mut buf[a..a + 32]);
        let i: usize = kani::any();
        kani::assume(i < 40);
        if a <= i && i < a + 32 {
            let k = i - a;
            let pos = 31 - k; // byte position from the least significant end
            assert!(buf[i] == ((v.0[pos / 8] >> (8 * (pos % 8))) & 0xff) as u8);
        } else {
            assert!(buf[i] == before[i]);
        }
    }
    /// `From<u64>`, `From<u128>`, `Default`, `low_u32`
    #[kani::proof]
    fn u256_small_conversions() {
        let x: u64 = kani::any();
        let a: U256 = x.into();
        assert!(a.0[0] == x && a.0[1] == 0 && a.0[2] == 0 && a.0[3] == 0);
        let y: u128 = kani::any();
        let b: U256 = y.into();
        assert!(b.0[0] == y as u64 && b.0[1] == (y >> 64) as u64 && b.0[2] == 0 && b.0[3] == 0);
        let d = U256::default();
        assert!(d.0[0] == 0 && d.0[1] == 0 && d.0[2] == 0 && d.0[3] == 0);
        let v = any_u256();
        assert!(v.low_u32() == v.0[0] as u32);
    }

    /// BOUNDED (12-byte buffer): std `<[u8]>::copy_within(a..b, dest)` is a memmove — every destination byte is the OLD byte of the
    /// source window even when the windows overlap (prelude helper `vx_copy_within`, used by MCOPY)
    #[kani::proof]
    #[kani::unwind(14)]
    fn copy_within_is_memmove_bounded() {
        let before: [u8; 12] = kani::any();
        let mut buf = before;
        let (a, b, dest): (usize, usize, usize) = (kani::any(), kani::any(), kani::any());
        kani::assume(a <= b && b <= 12 && dest <= 12 && dest + (b - a) <= 12);
        buf.copy_within(a..b, dest);
        let i: usize = kani::any();
        kani::assume(i < 12);
        if dest <= i && i < dest + (b - a) { assert!(buf[i] == before[a + (i - dest)]); } else { assert!(buf[i] == before[i]); }
    }

    // ================================================== (B) the opcode wrappers ==================================================
    #[derive(Clone, Copy, PartialEq, Eq)]
    enum Kind { Push, Proc, Jmp, Exit }
    fn name_is(got: &str, want: &str) -> bool {
        // recorder names are `kani_evm_instr::dispatch::<module>::<fn>`; compare the last two segments
        let (g, w) = (got.as_bytes(), want.as_bytes());
        if g.len() < w.len() { return false; }
        let off = g.len() - w.len();
        let mut i = 0;
        while i < w.len() { if g[off + i] != w[i] { return false; } i += 1; }
        off == 0 || g[off - 1] == b':'
    }
    fn reset() { unsafe { REC.calls = 0; REC.n = 0; REC.name = ""; REC.pc = usize::MAX; REC.extra = usize::MAX; REC.code_len = usize::MAX; } }

    /// the generic obligation for one opcode wrapper that takes K operands from the stack
    macro_rules! d {
        ($h:ident: $op:ident => $callee:expr, $k:expr, $kind:expr) => {
            #[kani::proof]
            #[kani::unwind(45)]
            fn $h() {
                const K: usize = $k;
                let kind: Kind = $kind;
                let below = any_u256();
                let mut ops = [U256::ZERO; 8];
                let mut i = 0;
                while i < K { ops[i] = any_u256(); i += 1; }
                let mut st = ExecutionState { stack: Stack::new() };
                st.stack.push(below).unwrap();
                // ops[0] is pushed LAST: it is the top of the stack, the Yellow Paper's µ_s[0]
                let mut i = K;
                while i > 0 { i -= 1; st.stack.push(ops[i]).unwrap(); }
                let ret = any_u256();
                let ret_pc: usize = kani::any();
                let ret_out: u64 = kani::any();
                unsafe { RET = ret; RET_PC = ret_pc; RET_OUT = ret_out; }
                reset();
                let code = Bytecode { code: [0; 40], len: 40 };
                let rt = NoRt;
                let mut sys = System { rt: &rt };
                let pc0: usize = kani::any();
                kani::assume(pc0 < 40);
                let mut m = Machine { system: &mut sys, state: &mut st, bytecode: &code, pc: pc0, output: Output::default() };
                let r = dispatch::$op(&mut m);
                assert!(r.is_ok());
                let (pc1, out1) = (m.pc, m.output);
                unsafe {
                    // exactly one call, of the named function, with µ_s[0], µ_s[1], ... as its operand arguments IN THAT ORDER
                    assert!(REC.calls == 1);
                    assert!(name_is(REC.name, $callee));
                    assert!(REC.n == K);
                    let mut i = 0;
                    while i < K { assert!(eq(&REC.args[i], &ops[i])); i += 1; }
                }
                match kind {
                    Kind::Push => {
                        assert!(st.stack.len() == 2 && pc1 == pc0 + 1 && out1 == Output::default());
                        let top = st.stack.pop().unwrap();
                        assert!(eq(&top, &ret));
                    }
                    Kind::Proc => { assert!(st.stack.len() == 1 && pc1 == pc0 + 1 && out1 == Output::default()); }
                    Kind::Jmp => { assert!(st.stack.len() == 1 && pc1 == ret_pc && out1 == Output::default()); unsafe { assert!(REC.pc == pc0); } }
                    Kind::Exit => { assert!(st.stack.len() == 1 && pc1 == 40 && out1.tag == ret_out); unsafe { assert!(REC.pc == pc0); } }
                }
                // whatever lay below the operands is untouched
                let b = st.stack.pop().unwrap();
                assert!(eq(&b, &below));
            }
        };
    }
    /// with fewer than K items the wrapper fails with STACK_UNDERFLOW and calls nothing
    macro_rules! u {
        ($h:ident: $op:ident, $k:expr) => {
            #[kani::proof]
            #[kani::unwind(10)]
            fn $h() {
                const K: usize = $k;
                let mut st = ExecutionState { stack: Stack::new() };
                let have: usize = kani::any();
                kani::assume(have < K);
                let mut i = 0;
                while i < K { if i < have { st.stack.push(any_u256()).unwrap(); } i += 1; }
                reset();
                let code = Bytecode { code: [0; 40], len: 40 };
                let rt = NoRt;
                let mut sys = System { rt: &rt };
                let mut m = Machine { system: &mut sys, state: &mut st, bytecode: &code, pc: 3, output: Output::default() };
                let r = dispatch::$op(&mut m);
                match r { Ok(_) => assert!(false), Err(e) => assert!(e.exit_code() == crate::EVM_CONTRACT_STACK_UNDERFLOW) }
                assert!(m.pc == 3);
                unsafe { assert!(REC.calls == 0); }
            }
        };
    }
    use Kind::*;
    // ---- arithmetic / comparison / bitwise: µ_s[0] is the FIRST parameter of the primitive (C17 states the primitives' contracts in
    //      these parameter names: sub(a, b) = a − b, div(a, b) = a / b, lt(a, b) = a < b, byte(i, x), shl(shift, value), exp(base, power),
    //      signextend(a = byte index, b = value), addmod(a, b, c = modulus))
    d!(d_add: ADD => "arithmetic::add", 2, Push);
    d!(d_mul: MUL => "arithmetic::mul", 2, Push);
    d!(d_sub: SUB => "arithmetic::sub", 2, Push);
    d!(d_div: DIV => "arithmetic::div", 2, Push);
    d!(d_sdiv: SDIV => "arithmetic::sdiv", 2, Push);
    d!(d_mod: MOD => "arithmetic::modulo", 2, Push);
    d!(d_smod: SMOD => "arithmetic::smod", 2, Push);
    d!(d_addmod: ADDMOD => "arithmetic::addmod", 3, Push);
    d!(d_mulmod: MULMOD => "arithmetic::mulmod", 3, Push);
    d!(d_exp: EXP => "arithmetic::exp", 2, Push);
    d!(d_signextend: SIGNEXTEND => "arithmetic::signextend", 2, Push);
    d!(d_lt: LT => "boolean::lt", 2, Push);
    d!(d_gt: GT => "boolean::gt", 2, Push);
    d!(d_slt: SLT => "boolean::slt", 2, Push);
    d!(d_sgt: SGT => "boolean::sgt", 2, Push);
    d!(d_eq: EQ => "boolean::eq", 2, Push);
    d!(d_iszero: ISZERO => "boolean::iszero", 1, Push);
    d!(d_and: AND => "boolean::and", 2, Push);
    d!(d_or: OR => "boolean::or", 2, Push);
    d!(d_xor: XOR => "boolean::xor", 2, Push);
    d!(d_not: NOT => "boolean::not", 1, Push);
    d!(d_byte: BYTE => "bitwise::byte", 2, Push);
    d!(d_shl: SHL => "bitwise::shl", 2, Push);
    d!(d_shr: SHR => "bitwise::shr", 2, Push);
    d!(d_sar: SAR => "bitwise::sar", 2, Push);
    d!(d_clz: CLZ => "bitwise::clz", 1, Push);
    // ---- hashing, memory, storage
    d!(d_keccak256: KECCAK256 => "hash::keccak256", 2, Push);
    d!(d_mload: MLOAD => "memory::mload", 1, Push);
    d!(d_mstore: MSTORE => "memory::mstore", 2, Proc);
    d!(d_mstore8: MSTORE8 => "memory::mstore8", 2, Proc);
    d!(d_msize: MSIZE => "memory::msize", 0, Push);
    d!(d_mcopy: MCOPY => "memory::mcopy", 3, Proc);
    d!(d_sload: SLOAD => "storage::sload", 1, Push);
    d!(d_sstore: SSTORE => "storage::sstore", 2, Proc);
    d!(d_tload: TLOAD => "storage::tload", 1, Push);
    d!(d_tstore: TSTORE => "storage::tstore", 2, Proc);
    // ---- call data / code / return data
    d!(d_calldataload: CALLDATALOAD => "call::calldataload", 1, Push);
    d!(d_calldatasize: CALLDATASIZE => "call::calldatasize", 0, Push);
    d!(d_calldatacopy: CALLDATACOPY => "call::calldatacopy", 3, Proc);
    d!(d_codesize: CODESIZE => "call::codesize", 0, Push);
    d!(d_codecopy: CODECOPY => "call::codecopy", 3, Proc);
    d!(d_returndatasize: RETURNDATASIZE => "control::returndatasize", 0, Push);
    d!(d_returndatacopy: RETURNDATACOPY => "control::returndatacopy", 3, Proc);
    // ---- control flow and halting
    d!(d_jump: JUMP => "control::jump", 1, Jmp);
    d!(d_jumpi: JUMPI => "control::jumpi", 2, Jmp);
    d!(d_jumpdest: JUMPDEST => "control::nop", 0, Proc);
    d!(d_invalid: INVALID => "control::invalid", 0, Proc);
    d!(d_return: RETURN => "control::ret", 2, Exit);
    d!(d_revert: REVERT => "control::revert", 2, Exit);
    d!(d_stop: STOP => "control::stop", 0, Exit);
    d!(d_selfdestruct: SELFDESTRUCT => "lifecycle::selfdestruct", 1, Exit);
    // ---- environment, external code, calls, creation, logs (operand order only; their semantics is outside this unit)
    d!(d_address: ADDRESS => "context::address", 0, Push);
    d!(d_balance: BALANCE => "state::balance", 1, Push);
    d!(d_origin: ORIGIN => "context::origin", 0, Push);
    d!(d_caller: CALLER => "context::caller", 0, Push);
    d!(d_callvalue: CALLVALUE => "context::call_value", 0, Push);
    d!(d_gasprice: GASPRICE => "context::gas_price", 0, Push);
    d!(d_extcodesize: EXTCODESIZE => "ext::extcodesize", 1, Push);
    d!(d_extcodecopy: EXTCODECOPY => "ext::extcodecopy", 4, Proc);
    d!(d_extcodehash: EXTCODEHASH => "ext::extcodehash", 1, Push);
    d!(d_blockhash: BLOCKHASH => "context::blockhash", 1, Push);
    d!(d_coinbase: COINBASE => "context::coinbase", 0, Push);
    d!(d_timestamp: TIMESTAMP => "context::timestamp", 0, Push);
    d!(d_number: NUMBER => "context::block_number", 0, Push);
    d!(d_prevrandao: PREVRANDAO => "context::prevrandao", 0, Push);
    d!(d_gaslimit: GASLIMIT => "context::gas_limit", 0, Push);
    d!(d_chainid: CHAINID => "context::chain_id", 0, Push);
    d!(d_basefee: BASEFEE => "context::base_fee", 0, Push);
    d!(d_selfbalance: SELFBALANCE => "state::selfbalance", 0, Push);
    d!(d_gas: GAS => "context::gas", 0, Push);
    d!(d_call: CALL => "call::call_call", 7, Push);
    d!(d_delegatecall: DELEGATECALL => "call::call_delegatecall", 6, Push);
    d!(d_staticcall: STATICCALL => "call::call_staticcall", 6, Push);
    d!(d_create: CREATE => "lifecycle::create", 3, Push);
    d!(d_create2: CREATE2 => "lifecycle::create2", 4, Push);
    d!(d_log0: LOG0 => "log_event::log", 2, Proc);
    d!(d_log1: LOG1 => "log_event::log", 3, Proc);
    d!(d_log2: LOG2 => "log_event::log", 4, Proc);
    d!(d_log3: LOG3 => "log_event::log", 5, Proc);
    d!(d_log4: LOG4 => "log_event::log", 6, Proc);
    // ---- underflow, one representative per macro kind and arity
    u!(u_sub: SUB, 2);
    u!(u_addmod: ADDMOD, 3);
    u!(u_iszero: ISZERO, 1);
    u!(u_mload: MLOAD, 1);
    u!(u_mstore: MSTORE, 2);
    u!(u_mcopy: MCOPY, 3);
    u!(u_codecopy: CODECOPY, 3);
    u!(u_jump: JUMP, 1);
    u!(u_jumpi: JUMPI, 2);
    u!(u_return: RETURN, 2);
    u!(u_call: CALL, 7);
    u!(u_log4: LOG4, 6);

    /// LOGn: the topic count passed is n
    #[kani::proof]
    #[kani::unwind(10)]
    fn d_log_ntopics() {
        let mut st = ExecutionState { stack: Stack::new() };
        let mut i = 0;
        while i < 6 { st.stack.push(any_u256()).unwrap(); i += 1; }
        let code = Bytecode { code: [0; 40], len: 40 };
        let rt = NoRt;
        let mut sys = System { rt: &rt };
        reset();
        let mut m = Machine { system: &mut sys, state: &mut st, bytecode: &code, pc: 0, output: Output::default() };
        assert!(dispatch::LOG3(&mut m).is_ok());
        unsafe { assert!(REC.extra == 3 && REC.n == 5); }
    }
    /// CODESIZE / CODECOPY receive the whole code
    #[kani::proof]
    #[kani::unwind(10)]
    fn d_code_arg() {
        let mut st = ExecutionState { stack: Stack::new() };
        let len: usize = kani::any();
        kani::assume(len <= 40);
        let code = Bytecode { code: [0; 40], len };
        let rt = NoRt;
        let mut sys = System { rt: &rt };
        reset();
        let mut m = Machine { system: &mut sys, state: &mut st, bytecode: &code, pc: 0, output: Output::default() };
        assert!(dispatch::CODESIZE(&mut m).is_ok());
        unsafe { assert!(REC.code_len == len); }
    }
    /// YP PC: µ'_s[0] = µ_pc, the counter BEFORE the increment for this instruction; then µ_pc + 1
    #[kani::proof]
    #[kani::unwind(10)]
    fn d_pc() {
        let below = any_u256();
        let mut st = ExecutionState { stack: Stack::new() };
        st.stack.push(below).unwrap();
        let code = Bytecode { code: [0; 40], len: 40 };
        let rt = NoRt;
        let mut sys = System { rt: &rt };
        let pc0: usize = kani::any();
        kani::assume(pc0 < usize::MAX);
        reset();
        let mut m = Machine { system: &mut sys, state: &mut st, bytecode: &code, pc: pc0, output: Output::default() };
        assert!(dispatch::PC(&mut m).is_ok());
        assert!(m.pc == pc0 + 1);
        unsafe { assert!(REC.calls == 0); }
        assert!(st.stack.len() == 2);
        let top = st.stack.pop().unwrap();
        assert!(top.0[0] == pc0 as u64 && top.0[1] == 0 && top.0[2] == 0 && top.0[3] == 0);
        assert!(eq(&st.stack.pop().unwrap(), &below));
    }
    /// PUSHn wrappers: the immediate is read from the byte AFTER the opcode, zero-extended past the end of the code, and the
    /// counter ends up behind the immediate (µ_pc + n + 1)
    macro_rules! dpush {
        ($($h:ident: $op:ident, $n:expr;)*) => { $(
            #[kani::proof]
            #[kani::unwind(41)]
            fn $h() {
                const N: usize = $n;
                let bytes: [u8; 40] = kani::any();
                let len: usize = kani::any();
                kani::assume(len >= 1 && len <= 40);
                let pc0: usize = kani::any();
                kani::assume(pc0 < len);
                let code = Bytecode { code: bytes, len };
                let mut st = ExecutionState { stack: Stack::new() };
                let rt = NoRt;
                let mut sys = System { rt: &rt };
                let mut m = Machine { system: &mut sys, state: &mut st, bytecode: &code, pc: pc0, output: Output::default() };
                assert!(dispatch::$op(&mut m).is_ok());
                assert!(m.pc == pc0 + 1 + N);
                assert!(st.stack.len() == 1);
                let v = st.stack.pop().unwrap();
                // Yellow Paper: byte k of the immediate is I_b[µ_pc + 1 + k] if that index is inside the code, else 0
                let avail = len - (pc0 + 1);
                let w = want::<N>(&bytes[pc0 + 1..], avail);
                assert!(v.0[0] == w[0] && v.0[1] == w[1] && v.0[2] == w[2] && v.0[3] == w[3]);
            }
        )* };
    }
    dpush! {
        d_push0: PUSH0, 0;         d_push1: PUSH1, 1;         d_push2: PUSH2, 2;         d_push3: PUSH3, 3;         d_push4: PUSH4, 4;         d_push5: PUSH5, 5;
        d_push6: PUSH6, 6;         d_push7: PUSH7, 7;         d_push8: PUSH8, 8;         d_push9: PUSH9, 9;         d_push10: PUSH10, 10;         d_push11: PUSH11, 11;
        d_push12: PUSH12, 12;         d_push13: PUSH13, 13;         d_push14: PUSH14, 14;         d_push15: PUSH15, 15;         d_push16: PUSH16, 16;         d_push17: PUSH17, 17;
        d_push18: PUSH18, 18;         d_push19: PUSH19, 19;         d_push20: PUSH20, 20;         d_push21: PUSH21, 21;         d_push22: PUSH22, 22;         d_push23: PUSH23, 23;
        d_push24: PUSH24, 24;         d_push25: PUSH25, 25;         d_push26: PUSH26, 26;         d_push27: PUSH27, 27;         d_push28: PUSH28, 28;         d_push29: PUSH29, 29;
        d_push30: PUSH30, 30;         d_push31: PUSH31, 31;         d_push32: PUSH32, 32; 
    }

    /// DUPn / SWAPn / POP through their wrappers, on the real Stack with 17 symbolic items
    fn stack17(vals: &mut [U256; 17]) -> Stack {
        let mut s = Stack::new();
        let mut i = 0;
        while i < 17 { vals[i] = any_u256(); s.push(vals[i]).unwrap(); i += 1; }
        s
    }
    macro_rules! ddup {
        ($($h:ident: $op:ident, $n:expr;)*) => { $(
            #[kani::proof]
            #[kani::unwind(20)]
            fn $h() {
                let mut vals = [U256::ZERO; 17];
                let mut st = ExecutionState { stack: stack17(&mut vals) };
                let code = Bytecode { code: [0; 40], len: 40 };
                let rt = NoRt;
                let mut sys = System { rt: &rt };
                let mut m = Machine { system: &mut sys, state: &mut st, bytecode: &code, pc: 5, output: Output::default() };
                assert!(dispatch::$op(&mut m).is_ok());
                assert!(m.pc == 6 && st.stack.len() == 18);
                // YP DUPn: µ'_s[0] = µ_s[n-1]; µ_s[k] is vals[16 - k]
                let top = st.stack.pop().unwrap();
                assert!(eq(&top, &vals[16 - ($n - 1)]));
                let mut i = 17;
                while i > 0 { i -= 1; assert!(eq(&st.stack.pop().unwrap(), &vals[i])); }
            }
        )* };
    }
    ddup! { d_dup1: DUP1, 1; d_dup2: DUP2, 2; d_dup3: DUP3, 3; d_dup4: DUP4, 4; d_dup5: DUP5, 5; d_dup6: DUP6, 6; d_dup7: DUP7, 7; d_dup8: DUP8, 8;
            d_dup9: DUP9, 9; d_dup10: DUP10, 10; d_dup11: DUP11, 11; d_dup12: DUP12, 12; d_dup13: DUP13, 13; d_dup14: DUP14, 14; d_dup15: DUP15, 15; d_dup16: DUP16, 16; }
    macro_rules! dswap {
        ($($h:ident: $op:ident, $n:expr;)*) => { $(
            #[kani::proof]
            #[kani::unwind(20)]
            fn $h() {
                let mut vals = [U256::ZERO; 17];
                let mut st = ExecutionState { stack: stack17(&mut vals) };
                let code = Bytecode { code: [0; 40], len: 40 };
                let rt = NoRt;
                let mut sys = System { rt: &rt };
                let mut m = Machine { system: &mut sys, state: &mut st, bytecode: &code, pc: 5, output: Output::default() };
                assert!(dispatch::$op(&mut m).is_ok());
                assert!(m.pc == 6 && st.stack.len() == 17);
                // YP SWAPn: µ'_s[0] = µ_s[n], µ'_s[n] = µ_s[0], all others unchanged; µ_s[k] is vals[16 - k]
                let mut k = 0;
                while k < 17 {
                    let got = st.stack.pop().unwrap();
                    let want = if k == 0 { vals[16 - $n] } else if k == $n { vals[16] } else { vals[16 - k] };
                    assert!(eq(&got, &want));
                    k += 1;
                }
            }
        )* };
    }
    dswap! { d_swap1: SWAP1, 1; d_swap2: SWAP2, 2; d_swap3: SWAP3, 3; d_swap4: SWAP4, 4; d_swap5: SWAP5, 5; d_swap6: SWAP6, 6; d_swap7: SWAP7, 7; d_swap8: SWAP8, 8;
             d_swap9: SWAP9, 9; d_swap10: SWAP10, 10; d_swap11: SWAP11, 11; d_swap12: SWAP12, 12; d_swap13: SWAP13, 13; d_swap14: SWAP14, 14; d_swap15: SWAP15, 15; d_swap16: SWAP16, 16; }
    #[kani::proof]
    #[kani::unwind(20)]
    fn d_pop() {
        let mut vals = [U256::ZERO; 17];
        let mut st = ExecutionState { stack: stack17(&mut vals) };
        let code = Bytecode { code: [0; 40], len: 40 };
        let rt = NoRt;
        let mut sys = System { rt: &rt };
        let mut m = Machine { system: &mut sys, state: &mut st, bytecode: &code, pc: 5, output: Output::default() };
        assert!(dispatch::POP(&mut m).is_ok());
        assert!(m.pc == 6 && st.stack.len() == 16);
        let mut i = 16;
        while i > 0 { i -= 1; assert!(eq(&st.stack.pop().unwrap(), &vals[i])); }
    }
}
