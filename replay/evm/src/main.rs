//! Replay driver for C17: runs the REAL instruction functions of /repo (path-included source files, real uint crate)
//! on boundary values + seeded random operands and compares with an executable twin of the Yellow-Paper spec
//! functions written over num-bigint. Prints one JSON object: {"oracle":..,"tried":N,"failing_input":{..}|null}.
#![allow(dead_code, unused_imports)]
use fil_actors_evm_shared::uints::U256;
use num_bigint::{BigInt, BigUint, Sign};
use num_integer::Integer;
use num_traits::{One, Zero};

#[path = "/repo/actors/evm/src/interpreter/instructions/arithmetic.rs"]
mod arithmetic;
#[path = "/repo/actors/evm/src/interpreter/instructions/bitwise.rs"]
mod bitwise;
#[path = "/repo/actors/evm/src/interpreter/instructions/boolean.rs"]
mod boolean;

struct Rng(u64);
impl Rng {
    fn next(&mut self) -> u64 {
        self.0 ^= self.0 << 13;
        self.0 ^= self.0 >> 7;
        self.0 ^= self.0 << 17;
        self.0
    }
    fn word(&mut self) -> U256 {
        let k = self.next() % 8;
        let mut w = [self.next(), self.next(), self.next(), self.next()];
        match k {
            0 => w = [self.next() % 300, 0, 0, 0],
            1 => { w[3] = 0; w[2] = 0; }
            2 => { w[3] |= 1 << 63; }
            3 => { w = [u64::MAX - self.next() % 4, u64::MAX, u64::MAX, u64::MAX]; }
            4 => { w = [self.next() % 4, 0, 0, 1 << 63]; }
            _ => {}
        }
        U256(w)
    }
}
fn boundary() -> Vec<U256> {
    let mut v = vec![U256::ZERO, U256::ONE, U256::from(2u64), U256::from(31u64), U256::from(32u64), U256::from(255u64), U256::from(256u64), U256::from(257u64), U256::MAX, U256::I256_MIN];
    v.push(U256::I256_MIN.overflowing_sub(U256::ONE).0);
    v.push(U256::I256_MIN.overflowing_add(U256::ONE).0);
    v.push(U256::MAX.overflowing_sub(U256::ONE).0);
    v.push(U256([u64::MAX, 0, 0, 0]));
    v.push(U256([0, 1, 0, 0]));
    v
}
fn big(x: U256) -> BigInt { BigInt::from_bytes_be(Sign::Plus, &x.to_big_endian()) }
fn p256() -> BigInt { BigInt::one() << 256 }
fn p255() -> BigInt { BigInt::one() << 255 }
fn sval(x: &BigInt) -> BigInt { if *x >= p255() { x - p256() } else { x.clone() } }
fn uval(x: &BigInt) -> BigInt { x.mod_floor(&p256()) }
fn word(x: &BigInt) -> U256 {
    let (_, b) = uval(x).to_bytes_be();
    U256::from_big_endian(&b)
}
fn tdiv(a: &BigInt, b: &BigInt) -> BigInt { a / b } // num-bigint `/` truncates towards zero
fn tmod(a: &BigInt, b: &BigInt) -> BigInt { a % b } // sign of the dividend

fn oracle2(name: &str, a: U256, b: U256) -> Option<(U256, U256)> {
    let (x, y) = (big(a), big(b));
    let (got, want): (U256, BigInt) = match name {
        "add" => (arithmetic::add(a, b), &x + &y),
        "sub" => (arithmetic::sub(a, b), &x - &y),
        "mul" => (arithmetic::mul(a, b), &x * &y),
        "div" => (arithmetic::div(a, b), if y.is_zero() { BigInt::zero() } else { &x / &y }),
        "modulo" => (arithmetic::modulo(a, b), if y.is_zero() { BigInt::zero() } else { &x % &y }),
        "sdiv" | "U256::i256_div" => (arithmetic::sdiv(a, b), if y.is_zero() { BigInt::zero() } else { tdiv(&sval(&x), &sval(&y)) }),
        "smod" | "U256::i256_mod" => (arithmetic::smod(a, b), if y.is_zero() { BigInt::zero() } else { tmod(&sval(&x), &sval(&y)) }),
        "lt" => (boolean::lt(a, b), BigInt::from((x < y) as u8)),
        "gt" => (boolean::gt(a, b), BigInt::from((x > y) as u8)),
        "slt" | "U256::i256_cmp" => (boolean::slt(a, b), BigInt::from((sval(&x) < sval(&y)) as u8)),
        "sgt" => (boolean::sgt(a, b), BigInt::from((sval(&x) > sval(&y)) as u8)),
        "eq" => (boolean::eq(a, b), BigInt::from((x == y) as u8)),
        "and" => (boolean::and(a, b), BigInt::from_biguint(Sign::Plus, x.magnitude() & y.magnitude())),
        "or" => (boolean::or(a, b), BigInt::from_biguint(Sign::Plus, x.magnitude() | y.magnitude())),
        "xor" => (boolean::xor(a, b), BigInt::from_biguint(Sign::Plus, x.magnitude() ^ y.magnitude())),
        "byte" => (bitwise::byte(a, b), if x >= BigInt::from(32) { BigInt::zero() } else { let i: u32 = x.to_string().parse().unwrap(); (&y >> (8 * (31 - i))) % 256 }),
        "shl" => (bitwise::shl(a, b), if x >= BigInt::from(256) { BigInt::zero() } else { let s: u32 = x.to_string().parse().unwrap(); &y << s }),
        "shr" => (bitwise::shr(a, b), if x >= BigInt::from(256) { BigInt::zero() } else { let s: u32 = x.to_string().parse().unwrap(); &y >> s }),
        "sar" => (bitwise::sar(a, b), { let s: u32 = if x >= BigInt::from(256) { 256 } else { x.to_string().parse().unwrap() }; sval(&y).div_floor(&(BigInt::one() << s)) }),
        "signextend" => (arithmetic::signextend(a, b), if x >= BigInt::from(32) { y.clone() } else {
            let k: u32 = x.to_string().parse().unwrap(); let bits = 8 * (k + 1); let m = BigInt::one() << bits;
            let low = &y % &m; if low >= (BigInt::one() << (bits - 1)) { low - m } else { low } }),
        "exp" => (arithmetic::exp(a, b), x.modpow(&y, &p256())),
        _ => return None,
    };
    let w = word(&want);
    if got != w { Some((got, w)) } else { None }
}
fn oracle1(name: &str, a: U256) -> Option<(U256, U256)> {
    let x = big(a);
    let (got, want): (U256, BigInt) = match name {
        "iszero" => (boolean::iszero(a), BigInt::from(x.is_zero() as u8)),
        "not" => (boolean::not(a), p256() - 1 - &x),
        "clz" => (bitwise::clz(a), BigInt::from(256 - x.bits())),
        "U256::i256_neg" => (a.i256_neg(), -&x),
        _ => return None,
    };
    let w = word(&want);
    if got != w { Some((got, w)) } else { None }
}
fn oracle3(name: &str, a: U256, b: U256, c: U256) -> Option<(U256, U256)> {
    let (x, y, z) = (big(a), big(b), big(c));
    let (got, want): (U256, BigInt) = match name {
        "addmod" => (arithmetic::addmod(a, b, c), if z.is_zero() { BigInt::zero() } else { (&x + &y) % &z }),
        "mulmod" => (arithmetic::mulmod(a, b, c), if z.is_zero() { BigInt::zero() } else { (&x * &y) % &z }),
        _ => return None,
    };
    let w = word(&want);
    if got != w { Some((got, w)) } else { None }
}
fn hex(x: U256) -> String { format!("0x{:064x}", x) }

fn main() {
    let args: Vec<String> = std::env::args().collect();
    let name = args.get(1).cloned().unwrap_or_default();
    let seed: u64 = args.get(2).and_then(|s| s.parse().ok()).unwrap_or(0);
    let n: usize = args.get(3).and_then(|s| s.parse().ok()).unwrap_or(200_000);
    // replay of a recorded input: replay-evm <fn> --input a b [c]
    if args.get(2).map(|s| s == "--input").unwrap_or(false) {
        let ws: Vec<U256> = args[3..].iter().map(|h| U256::from_str_radix(h.trim_start_matches("0x"), 16).unwrap()).collect();
        let r = match ws.len() { 1 => oracle1(&name, ws[0]), 2 => oracle2(&name, ws[0], ws[1]), _ => oracle3(&name, ws[0], ws[1], ws[2]) };
        match r { Some((g, w)) => { println!("{{\"reproduced\":true,\"got\":\"{}\",\"want\":\"{}\"}}", hex(g), hex(w)); std::process::exit(1) } None => { println!("{{\"reproduced\":false}}"); std::process::exit(0) } }
    }
    let mut rng = Rng(0x9E3779B97F4A7C15 ^ seed.wrapping_mul(0xD1B54A32D192ED03) | 1);
    let bs = boundary();
    let arity = if oracle1(&name, U256::ZERO).is_some() || ["iszero", "not", "clz", "U256::i256_neg"].contains(&name.as_str()) { 1 }
        else if ["addmod", "mulmod"].contains(&name.as_str()) { 3 } else { 2 };
    let mut tried = 0usize;
    let mut report = |ins: Vec<U256>, g: U256, w: U256, tried: usize| {
        let ins_s: Vec<String> = ins.iter().map(|x| format!("\"{}\"", hex(*x))).collect();
        println!("{{\"oracle\":\"{}\",\"tried\":{},\"failing_input\":{{\"function\":\"{}\",\"operands\":[{}],\"got\":\"{}\",\"want\":\"{}\"}}}}", name, tried, name, ins_s.join(","), hex(g), hex(w));
        std::process::exit(0);
    };
    // boundary cross product first
    for &a in &bs {
        if arity == 1 { tried += 1; if let Some((g, w)) = oracle1(&name, a) { report(vec![a], g, w, tried); } continue; }
        for &b in &bs {
            if arity == 2 { tried += 1; match oracle2(&name, a, b) { Some((g, w)) => report(vec![a, b], g, w, tried), None => {} } continue; }
            for &c in &bs { tried += 1; if let Some((g, w)) = oracle3(&name, a, b, c) { report(vec![a, b, c], g, w, tried); } }
        }
    }
    if arity == 2 && oracle2(&name, U256::ZERO, U256::ZERO).is_none() && !["add","sub","mul","div","modulo","sdiv","smod","lt","gt","slt","sgt","eq","and","or","xor","byte","shl","shr","sar","signextend","exp","U256::i256_div","U256::i256_mod","U256::i256_cmp"].contains(&name.as_str()) {
        println!("{{\"oracle\":\"{}\",\"tried\":0,\"failing_input\":null,\"note\":\"no oracle for this obligation\"}}", name);
        return;
    }
    for _ in 0..n {
        let (a, b, c) = (rng.word(), rng.word(), rng.word());
        tried += 1;
        let r = match arity { 1 => oracle1(&name, a), 2 => oracle2(&name, a, b), _ => oracle3(&name, a, b, c) };
        if let Some((g, w)) = r {
            let ins = match arity { 1 => vec![a], 2 => vec![a, b], _ => vec![a, b, c] };
            report(ins, g, w, tried);
        }
    }
    println!("{{\"oracle\":\"{}\",\"tried\":{},\"failing_input\":null}}", name, tried);
}
