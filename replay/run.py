#!/usr/bin/env python3
"""replay/run.py <oracle-spec> <seed>        — search a concrete failing input on the REAL code (rebuilt from /repo now)
   replay/run.py --input '<json>'            — re-execute a recorded input; exit 1 if it still fails
oracle-spec: "evm:<function>" | "evm_mem:<function>"."""
import json, os, subprocess, sys
V = os.path.dirname(os.path.dirname(os.path.abspath(__file__)))
TARGET = os.path.join(V, ".work", "replay-target")

def build(crate):
    cdir = os.path.join(V, "replay", crate)
    lock = os.path.join(cdir, "Cargo.lock")
    if not os.path.exists(lock):
        import shutil; shutil.copy("/repo/Cargo.lock", lock)
    env = dict(os.environ, CARGO_TARGET_DIR=TARGET, CARGO_NET_OFFLINE="true")
    r = subprocess.run(["cargo", "build", "--release", "--offline"], cwd=cdir, env=env, stdout=subprocess.PIPE, stderr=subprocess.STDOUT, text=True)
    if r.returncode != 0:
        return None, r.stdout[-2000:]
    return os.path.join(TARGET, "release", "replay-" + crate), ""

def main():
    if sys.argv[1] == "--input":
        inp = json.loads(sys.argv[2])
        if inp.get("crate") == "evm_mem":
            # re-run the recorded search prefix (same seed, up to the failing iteration) on the current tree
            binp, err = build("evm_mem")
            if not binp:
                print(json.dumps({"error": err})); sys.exit(2)
            r = subprocess.run([binp, inp["function"], str(inp["seed"]), str(inp["iteration"])], stdout=subprocess.PIPE, text=True)
            print(r.stdout.strip())
            sys.exit(1 if json.loads(r.stdout).get("failing_input") else 0)
        binp, err = build("evm")
        if not binp:
            print(json.dumps({"error": err})); sys.exit(2)
        r = subprocess.run([binp, inp["function"], "--input"] + inp["operands"], stdout=subprocess.PIPE, text=True)
        print(r.stdout.strip()); sys.exit(r.returncode)
    kind, fn = sys.argv[1].split(":", 1)
    seed = sys.argv[2] if len(sys.argv) > 2 else "0"
    binp, err = build(kind)
    if not binp:
        print(json.dumps({"failing_input": None, "error": "replay crate does not build: " + err})); return
    r = subprocess.run([binp, fn, seed, "200000"], stdout=subprocess.PIPE, stderr=subprocess.PIPE, text=True, timeout=600)
    print(r.stdout.strip() or json.dumps({"failing_input": None, "error": r.stderr[-500:]}))
main()
