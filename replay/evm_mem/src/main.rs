//! Replay driver for the EVM memory unit (C17/C18): runs the REAL `interpreter/memory.rs` and
//! `interpreter/instructions/memory.rs` of /repo (path-included, unmodified) against an executable twin of the
//! Verus spec functions of units/C18/evm_memory.inc. The only shims are the two container types the instruction
//! wrappers take as parameters (`ExecutionState` with its `memory` field, `System<RT>`), which the replayed
//! functions (`get_memory_region`, `copy_to_memory`, `Memory::grow`) never touch.
//!   replay-evm-mem copy_to_memory <seed> [n]   -> {"oracle":..,"tried":N,"failing_input":{..}|null}
//!   replay-evm-mem get_memory_region <seed> [n]
//!   replay-evm-mem f3                          -> calls get_memory_region(mem, 0xFFFF_FFDF, 32) (32-bit targets: F3)
#![allow(dead_code, unused_imports, unused_macros)]
use fil_actors_evm_shared::uints::U256;
use fvm_shared::error::ExitCode;

pub const EVM_CONTRACT_ILLEGAL_MEMORY_ACCESS: ExitCode = ExitCode::new(38);
const EVM_WORD_SIZE: usize = 32;

pub mod interpreter {
    #[path = "/repo/actors/evm/src/interpreter/memory.rs"]
    pub mod memory;
    pub struct ExecutionState {
        pub memory: memory::Memory,
    }
    pub struct System<RT>(pub std::marker::PhantomData<RT>);
    #[path = "/repo/actors/evm/src/interpreter/instructions/memory.rs"]
    pub mod instructions_memory;
}
use interpreter::instructions_memory::{copy_to_memory, get_memory_region};
use interpreter::memory::Memory;

struct Rng(u64);
impl Rng {
    fn next(&mut self) -> u64 {
        self.0 ^= self.0 << 13;
        self.0 ^= self.0 >> 7;
        self.0 ^= self.0 << 17;
        self.0
    }
    fn small(&mut self, m: u64) -> u64 { self.next() % m }
    fn word(&mut self, m: u64) -> U256 {
        match self.next() % 6 {
            0 => U256::from(0u64),
            1 => U256::MAX,
            2 => U256::from(u32::MAX as u64 + self.small(3)),
            3 => U256([self.next(), self.next(), self.next(), self.next()]),
            _ => U256::from(self.small(m)),
        }
    }
}

fn pre_byte(old: &[u8], i: usize) -> u8 { if i < old.len() { old[i] } else { 0 } }

fn main() {
    let args: Vec<String> = std::env::args().collect();
    let which = args.get(1).map(|s| s.as_str()).unwrap_or("copy_to_memory");
    if which == "f3" {
        let mut mem: Memory = Default::default();
        let r = get_memory_region(&mut mem, 0xFFFF_FFDFu32, 32u32);
        println!("{{\"oracle\":\"f3\",\"outcome\":\"returned\",\"is_ok\":{},\"usize_bits\":{}}}", r.is_ok(), usize::BITS);
        return;
    }
    let seed: u64 = args.get(2).and_then(|s| s.parse().ok()).unwrap_or(1);
    let n: usize = args.get(3).and_then(|s| s.parse().ok()).unwrap_or(20000);
    let mut rng = Rng(seed.wrapping_mul(0x9E3779B97F4A7C15) | 1);
    let mut tried = 0usize;
    for _ in 0..n {
        tried += 1;
        // initial memory: 0..3 words of non-zero bytes
        let words = rng.small(4) as usize;
        let mut mem: Memory = Default::default();
        mem.grow(words * 32);
        for i in 0..words * 32 { mem[i] = 0xA0 | (i as u8 & 0xF); }
        let old: Vec<u8> = mem.to_vec();
        let dest_offset = rng.word(200);
        let dest_size = rng.word(100);
        let data_offset = rng.word(40);
        let dlen = rng.small(40) as usize;
        let data: Vec<u8> = (0..dlen).map(|i| 1 + (i as u8)).collect();
        let zero_fill = rng.small(2) == 0;
        // never allocate gigabytes on the host: keep in-range regions small
        let wide = dest_size > U256::from(u32::MAX as u64)
            || (!dest_size.is_zero() && (dest_offset > U256::from(u32::MAX as u64) || dest_offset.low_u64() + dest_size.low_u64() > u32::MAX as u64));
        if !wide && !dest_size.is_zero() && dest_offset.low_u64() + dest_size.low_u64() > (1 << 20) { continue; }
        let fail = |why: &str, mem: &Memory| {
            println!(
                "{{\"oracle\":\"{}\",\"tried\":{},\"failing_input\":{{\"crate\":\"evm_mem\",\"function\":\"{}\",\"seed\":{},\"iteration\":{},\"old_memory_len\":{},\"dest_offset\":\"{}\",\"dest_size\":\"{}\",\"data_offset\":\"{}\",\"data_len\":{},\"zero_fill\":{},\"why\":\"{}\",\"memory_len_after\":{}}}}}",
                which, tried, which, seed, tried, old.len(), dest_offset, dest_size, data_offset, dlen, zero_fill, why, mem.len()
            );
            std::process::exit(0);
        };
        if which == "get_memory_region" {
            let r = get_memory_region(&mut mem, dest_offset, dest_size);
            match &r {
                Err(_) => { if !wide { fail("refused an in-range region", &mem) } if mem[..] != old[..] { fail("memory changed on error", &mem) } }
                Ok(None) => { if !dest_size.is_zero() { fail("None for a non-empty region", &mem) } if mem[..] != old[..] { fail("memory changed by an empty access", &mem) } }
                Ok(Some(reg)) => {
                    if wide || dest_size.is_zero() { fail("region returned beyond the u32 limit / for size 0", &mem) }
                    let (o, s) = (dest_offset.low_u64() as usize, dest_size.low_u64() as usize);
                    if reg.offset != o || reg.size.get() != s { fail("wrong region", &mem) }
                    if mem.len() < o + s { fail("memory not grown to cover the region", &mem) }
                    for i in 0..mem.len() { if mem[i] != pre_byte(&old, i) { fail("growth did not keep old bytes / zero-fill", &mem) } }
                }
            }
            continue;
        }
        let r = copy_to_memory(&mut mem, dest_offset, dest_size, data_offset, &data, zero_fill);
        if r.is_ok() == wide { fail("ok/err does not match the u32 limit", &mem) }
        if r.is_err() { if mem[..] != old[..] { fail("memory changed on error", &mem) } continue; }
        if dest_size.is_zero() { if mem[..] != old[..] { fail("memory changed by empty copy", &mem) } continue; }
        let (o, s) = (dest_offset.low_u64() as usize, dest_size.low_u64() as usize);
        if mem.len() < o + s { fail("memory not grown", &mem) }
        for i in 0..mem.len() {
            let want = if o <= i && i < o + s {
                let k = U256::from(i - o).overflowing_add(data_offset);
                if !k.1 && k.0 < U256::from(dlen as u64) { data[k.0.low_u64() as usize] } else if zero_fill { 0 } else { pre_byte(&old, i) }
            } else { pre_byte(&old, i) };
            if mem[i] != want { fail(&format!("byte {} is {} but the specification says {}", i, mem[i], want), &mem) }
        }
    }
    println!("{{\"oracle\":\"{}\",\"tried\":{},\"failing_input\":null}}", which, tried);
}
